#!/venv/bin/python
"""Regenerates MANIFEST.json from the table below (kept valid against the schema at all times)."""
import json, os, sys

HERE = os.path.dirname(os.path.abspath(__file__))

CLAIMED = {
    # id: (technique, level text, level note, design_ref, category)
    "C05": (
        "Hypothesis-generated fetch sequences vs list-and-index model",
        "Generated result shapes (repeated/quoted names, NULLs; SELECT results and the status rows of DML, DDL and no-op statements run on the same cursor) x fetch-call sequences on tuple and dict cursors compared "
        "step by step with a list-and-index reference; exploration, not proof.",
        "Trusts DuckDB's ORDER BY and literal INSERT to produce the intended rows; values limited to int/str/float/bool/date.",
        "DESIGN.md §4 C05",
        "exploration",
    ),
    "C20": (
        "exhaustive argv enumeration vs reference parser + Hypothesis patch()-entry sequences with identity oracle",
        "Every valid invocation up to a bounded target-argument length is enumerated against a reference parser of the documented "
        "grammar (exhaustive within the bound); patch() entry sequences over good/bad/lazy extra targets and exit modes are generated "
        "and checked by object identity before/inside/after. Exploration (exhaustive for the bounded CLI space).",
        "cli_argv observes main() with patch()/runpy replaced by recorders; the end-to-end facet (real patch, real runpy) samples the same space.",
        "DESIGN.md §4 C20",
        "exploration",
    ),
    "C15": (
        "Hypothesis-generated SET/UNSET/use histories over colliding names vs per-connection dict model",
        "Generated histories over two connections x two cursors with names that are prefixes/case variants of each other and values "
        "over regex/SQL-special characters, compared step by step with a dict-per-connection model; exploration.",
        "Values are read back through SELECT $name; UNSET only of defined names; $-in-literal shapes are generated but listed as a known finding.",
        "DESIGN.md §4 C15",
        "exploration",
    ),
    "C14": (
        "complete enumeration of the configuration product vs a pure oracle function",
        "The finite product of connect arguments x letter case x auto-create flags x storage mode x prior state x connection order is "
        "enumerated completely (quick: 2880 configurations, thorough: 32000; both the FakeSnow() and the fakesnow.patch() route) and each outcome compared with a pure function of the "
        "configuration; a second complete product puts look-alike sibling databases/schemas (names differing at an underscore, prefixes) beside the requested ones; exhaustive over those products, exploration beyond them.",
        "Prior state is built through an option-less session with fully qualified DDL; 'database exists' means attached in the live instance.",
        "DESIGN.md §4 C14",
        "exploration",
    ),
    "C04": (
        "Hypothesis-generated DML histories vs table model with three-valued-logic evaluator; DDL status sweep",
        "Generated DML histories over tables with NULLs/duplicates and 3VL predicates are compared after every statement with a "
        "reference table model (status row, names, rowcount, target multiset, bystanders); generated valid DDL sequences are compared "
        "with the Snowflake status message format. Exploration.",
        "The Kleene evaluator and table model are the trusted reference (self-tested on worked examples each run).",
        "DESIGN.md §4 C04",
        "exploration",
    ),
    "C01": (
        "Hypothesis-generated typed values x ingestion paths, identity (round-trip) oracle",
        "Edge-biased values of 12 type families (38 spellings) with NULLs are written through 8 ingestion paths and read back; the oracle "
        "is identity in the connector's Python type, plus unchanged source/bystander tables. Exploration.",
        "Values are constructed to be exactly representable in the declared type; literal rendering is the harness's own.",
        "DESIGN.md §4 C01",
        "exploration",
    ),
    "C08": (
        "Hypothesis-generated parameter values x paramstyles x statement templates; round-trip, effect model and literal-twin differential",
        "Adversarial strings and typed edge values are bound under every paramstyle into nine statement templates; the oracle is the value "
        "round trip, a model of the DML effect, and a differential against the same statement with harness-rendered literals on a twin "
        "instance; executemany is compared with a loop of execute. Exploration.",
        "The harness's literal renderer is the reference for 'correctly quoted literal'; the twin is skipped for values containing $word (C15 finding).",
        "DESIGN.md §4 C08",
        "exploration",
    ),
    "C13": (
        "Hypothesis-generated transactional histories over three connections vs committed-store + pending-set model",
        "Statement-level interleavings of BEGIN/DML (execute and executemany)/failing statements/COMMIT/ROLLBACK (SQL and API)/close with an open transaction on three connections (context from connect arguments or from USE) with three "
        "cursors each (one opened and used on another thread) are generated (state-aware drawing keeps transactions overlapping) and every read is compared with a model of "
        "committed states and pending sets; exploration of statement-level interleavings (thread-level ones are C19's).",
        "Non-conflicting writes only; a reader inside a transaction may see any state committed since its BEGIN.",
        "DESIGN.md §4 C13",
        "exploration",
    ),
    "C03": (
        "Hypothesis-generated multi-connection DDL/USE/DML histories vs catalogue model with per-connection context; engine-level row scan",
        "Histories over 1-3 connections, 2 databases x 2 schemas x 2 table names and three qualification levels are generated; after every "
        "step the four context observers of every connection are compared with a catalogue model and an engine-level scan checks that "
        "every tagged row sits in the table the model resolved it to. Exploration.",
        "The schema after USE DATABASE is taken from conn.schema (agreement oracle). DROP DATABASE excluded (unsupported, listed under C04).",
        "DESIGN.md §4 C03",
        "exploration",
    ),
    "C07": (
        "Hypothesis-sampled failing statements x session states x follow-ups; error-code oracle, engine-level snapshot and twin differential",
        "54 failing statements (cause x syntactic position) are run in generated session states (open transaction, variables, cursor kind) with "
        "generated follow-up statements; the error type/code, cursor.sqlstate life cycle, an engine-level state snapshot, the open "
        "transaction and a twin instance that never saw the failure are the oracle. A second facet applies every public use after close(). Exploration.",
        "Only reference-caused failures are generated; where the repo pins no exact code any of the four listed (errno, sqlstate) pairs is accepted.",
        "DESIGN.md §4 C07",
        "exploration",
    ),
    "C09": (
        "Hypothesis-generated DDL histories vs catalogue model; every metadata observer read from every scope after every step",
        "DDL histories over 2 databases x 2 schemas x 2 names (create/replace/if-not-exists/transient/cluster-by, CTAS, CLONE, views, ALTER, "
        "COMMENT, DROP, re-CREATE) are generated; after every step information_schema.*, DESCRIBE, SHOW in three scopes and the "
        "description of SELECT * are compared with a catalogue model holding the attributes as most recently declared. Exploration.",
        "Snowflake type names/lengths per the mapping the repo's tests pin; OBJECT/ARRAY not generated; stale-attribute findings are classified by provenance.",
        "DESIGN.md §4 C09",
        "exploration",
    ),
    "C06": (
        "Hypothesis-sampled statement kinds x read points; description vs fetched values, DictCursor keys, declared types, describe() on a twin",
        "A catalogue of ~125 statements of every kind is sampled with the read point, cursor class and paramstyle; description must not "
        "raise, must agree with the Python values fetched and with declared types, must equal describe() on a fresh twin (which must not "
        "execute), and reading it must leave rows, state, context and open transactions unchanged (twin + snapshot oracle). Exploration.",
        "The statement catalogue is fixed (each statement succeeds on the fixed setup); type agreement uses the connector's type-code table.",
        "DESIGN.md §4 C06",
        "exploration",
    ),
    "C02": (
        "metamorphic: Hypothesis-generated scripts run as written and with re-spelled keyword/identifier case on twin instances",
        "Scripts over a pool of 64 statements of every kind are run on one instance as written and on a second with the letter case of "
        "every keyword and unquoted identifier changed by a generated mask (literals and quoted identifiers untouched); the complete "
        "observable outcome after each statement must be equal, and reported names must be upper-cased/verbatim. Exploration.",
        "Error message text and distinctness of \"x\" vs X are not asserted; JSON path keys are excluded from the pool.",
        "DESIGN.md §4 C02",
        "exploration",
    ),
    "C16": (
        "differential: execute_string vs one-by-one execution on a twin, plus literal round trip; nop_regexes vs re.match oracle and plain twin",
        "Generated statement lists with adversarial literals, separators, comments, empty statements and an optional failing statement are "
        "run through execute_string and, on a twin, one by one (per-statement rows, descriptions, error, final snapshot compared; each "
        "literal also compared with the Python string it denotes). Pattern sets x statements decide no-op vs normal behaviour against "
        "re.match and a twin without the option. Exploration.",
        "Literal contents exclude $word (C15 finding); nop matching is on the parameter-substituted text.",
        "DESIGN.md §4 C16",
        "exploration",
    ),
    "C10": (
        "Hypothesis-generated arguments x argument form x expression context per rewritten construct vs reference implementations of documented semantics",
        "18 constructs (REGEXP_REPLACE/SUBSTR, SPLIT, TRIM family, TO_DATE, TO_TIMESTAMP[_NTZ], TO_DECIMAL family, DATEADD, DATEDIFF, SHA2 "
        "family, EQUAL_NULL, casts, RANDOM, SAMPLE, IDENTIFIER, VALUES columnN, ARRAY_AGG, alias in JOIN) are exercised with edge-biased "
        "arguments as literals and as columns, embedded in select list / WHERE / nested / CTE / sub-query / VIEW / INSERT..SELECT, and "
        "compared (value and Python type) with Python reference implementations self-tested on documented examples. Exploration.",
        "The oracle encodes documented Snowflake semantics restricted to unambiguous parts; forms fakesnow does not claim may be rejected.",
        "DESIGN.md §4 C10",
        "exploration",
    ),
    "C11": (
        "Hypothesis-generated JSON documents x paths x syntaxes x casts x wrappers x operator contexts vs Python navigation; constructors and FLATTEN vs Python dict/list",
        "Recursive JSON documents with paths generated against them (present / missing / wrong kind) are accessed through every syntax, "
        "cast, wrapper and surrounding operator context and compared with navigating the same document in Python; OBJECT/ARRAY "
        "constructors and LATERAL FLATTEN are compared with Python dict/list semantics. Exploration.",
        "JSON text is compared parsed; a JSON null member may surface as NULL or 'null'; shapes with listed findings (chained brackets, odd keys, bracket-last text conversion) are classified coarsely.",
        "DESIGN.md §4 C11",
        "exploration",
    ),
    "C12": (
        "Hypothesis-generated target/source tables x clause lists x spellings vs a MERGE interpreter on the pre-merge snapshot",
        "Deterministic merges over generated tables (NULL and duplicate keys), one/two-column ON, 1-4 conditional clauses and spelling "
        "variants are compared with a reference interpreter of the documented semantics: target multiset, count columns, source and "
        "bystander unchanged, helper object invisible, atomicity under an injected last-step failure, repeated merge. Exploration.",
        "3/5 of cases are in the clean shape space; shapes with listed findings are classified by one primary shape.",
        "DESIGN.md §4 C12",
        "exploration",
    ),
    "C19": (
        "Hypothesis-generated session scripts x engine-call schedules under a deterministic scheduler (DuckDB connection proxy) vs all serial orders; free-running threads with invariants",
        "Every fakesnow<->DuckDB call goes through a proxy that parks the calling thread until a deterministic scheduler grants the "
        "turn, so interleavings of the individual engine calls of 2-3 sessions are generated, shrunk and replayed; outcome vector + "
        "final snapshot must equal one of all statement-level serial orders. A second facet runs real threads (in a forked child, so an "
        "interpreter crash is a finding, not a harness error) with invariants valid for every timing; both facets also use instances "
        "without database auto-creation and sessions opened without context. Exploration of bounded scripts/schedules.",
        "Engine calls are atomic scheduler steps; sessions blocked on a Python lock are detected by a grace period; races inside DuckDB are only sampled by the free-running facet.",
        "DESIGN.md §4 C19",
        "exploration",
    ),
    "C18": (
        "fault enumeration: Hypothesis-generated histories x exit modes x SIGKILL at every engine-call boundary (forked processes, DuckDB connection proxy) vs committed-prefix states read by a fresh verifier process",
        "Generated statement histories run under patch(db_path) in a forked process; a proxy around the DuckDB connection counts engine "
        "calls and kills the process before/after the N-th one; clean and exception exits are included. A reference run gives the "
        "committed state after every statement and a fresh verifier process (reconnect options varied) must find exactly an allowed "
        "state and must itself start; a reader that opens one database only must list every successfully created table and the recorded "
        "comments / VARCHAR lengths (small model of the history). In-memory isolation and absence of files are checked in a forked process with an empty cwd.",
        "Crash points are engine-call boundaries; kills inside a single DuckDB call are not enumerated. Committed state = what a fresh engine cursor of the reference run sees.",
        "DESIGN.md §4 C18",
        "fault_enumeration",
    ),
    "C17": (
        "differential: real snowflake connector over loopback HTTP (uvicorn + fakesnow.server.app) vs in-process FakeSnow on twin state; raw-request session histories",
        "Generated typed tables with edge values and NULLs, the statement catalogue of every kind, failing statements, and histories of "
        "logins/requests with good and bad tokens are run through the real connector against the server and through the in-process "
        "fake; rows (value and Python type), description, rowcount, errors, per-session context/variables, data sharing and 401 handling are compared. Exploration.",
        "The server runs in the check's own process under uvicorn on a loopback port; JSON compared parsed; path-backed logins not exercised.",
        "DESIGN.md §4 C17",
        "exploration",
    ),
}

NOT_YET = {}


def main():
    props = [json.loads(l) for l in open(os.path.join(HERE, "properties.jsonl"))]
    checks = []
    na = []
    for p in props:
        pid = p["id"]
        if pid in CLAIMED:
            tech, text, note, ref, cat = CLAIMED[pid]
            checks.append({
                "property_id": pid,
                "quick_cmd": f"./check {pid} quick",
                "thorough_cmd": f"./check {pid} thorough",
                "evidence_file": f"evidence/{pid}.json",
                "replay_cmd_template": f"./check {pid} --replay {{path}}",
                "engine": "vf",
                "level_claimed": {"category": cat, "text": text, "design_ref": ref},
                "level_note": note,
                "technique": tech,
            })
        else:
            na.append({"property_id": pid, "reason": NOT_YET.get(pid, "check not built yet in this round (planned: property-based check per DESIGN.md §4); not claimed until it is quiet on the unchanged tree")})
    m = {
        "version": 1,
        "setup_cmd": "./setup.sh",
        "hooks": {
            "guard": "TEKUMARA_FAKESNOW_VERIF",
            "enable": "no source hooks: schedules/crash points are owned by wrapping the DuckDB connection from the harness; ./check exports TEKUMARA_FAKESNOW_VERIF=1 for completeness",
            "baseline_off_cmd": "cd /repo && /venv/bin/python -m pytest -ra -q -p no:cacheprovider --timeout=900 --continue-on-collection-errors",
            "source_commits": [],
            "add_only": True,
        },
        "engines": [{"name": "vf", "path": "vf/engine.py", "serves_properties": sorted(CLAIMED), "kind_free_text": "Hypothesis-driven facet runner: seeded generation, 16-way sharding, signature-classified violations, deterministic JSON shrinker, replay files, evidence writer"}],
        "checks": checks,
        "notes": "Property-based testing / fuzzing only. Known findings in known_findings.json; design in DESIGN.md.",
        "not_applicable": na,
    }
    json.dump(m, open(os.path.join(HERE, "MANIFEST.json"), "w"), indent=1)
    try:
        import jsonschema
        jsonschema.validate(m, json.load(open("/root/.vp/MANIFEST.schema.json")))
        print("MANIFEST valid;", len(checks), "claimed,", len(na), "not claimed")
    except ImportError:
        print("jsonschema missing; wrote MANIFEST unvalidated")

if __name__ == "__main__":
    main()
