#!/usr/bin/env python3
"""Regenerates the generated tables of DESIGN.md (between BEGIN/END markers) from mutants_results.json and seeded/*/meta.json."""
import json, os, re
HERE = os.path.dirname(os.path.abspath(__file__))
s = open(os.path.join(HERE, "DESIGN.md")).read()

def put(tag, text):
    global s
    a, b = f"<!-- BEGIN:{tag} -->", f"<!-- END:{tag} -->"
    i, j = s.index(a) + len(a), s.index(b)
    s = s[:i] + "\n" + text.rstrip() + "\n" + s[j:]

esc = lambda t: t.replace("|", "\\|")
rows = ["| id | file | change | test-green | aimed at → verdict |", "|---|---|---|---|---|"]
res = json.load(open(os.path.join(HERE, "mutants_results.json")))
for r in res:
    v = ", ".join(f"{k} {c['verdict'].lower()}" + (f" (`{esc((c.get('signatures') or [''])[0])[:70]}`)" if c["verdict"] == "CAUGHT" and c.get("signatures") else "") for k, c in r.get("checks", {}).items())
    rows.append(f"| {r['id']} | `{r['file'].replace('fakesnow/', '')}` | {esc(r['note'])} | {'yes' if r.get('test_green') else 'no'} | {v} |")
green = [r for r in res if r.get("test_green")]
caught_green = [r for r in green if any(c["verdict"] == "CAUGHT" for c in r["checks"].values())]
rows.append("")
rows.append(f"{len(res)} mutants, {len(green)} of them test-green; {len(caught_green)} of the test-green ones are caught by at least one of the checks they were aimed at. "
            "Not caught by a check it was aimed at: " + "; ".join(f"{r['id']}/{k}" for r in res for k, c in r.get("checks", {}).items() if c["verdict"] != "CAUGHT") + " (each explained below).")
put("mutants", "\n".join(rows))

FIRST = json.load(open(os.path.join(HERE, "seeded", "first_run.json"))) if os.path.exists(os.path.join(HERE, "seeded", "first_run.json")) else {}
rows = ["| seed | change | first run | now caught by |", "|---|---|---|---|"]
for name in sorted(os.listdir(os.path.join(HERE, "seeded"))):
    mp = os.path.join(HERE, "seeded", name, "meta.json")
    if not os.path.exists(mp) or int(name.split("-")[1]) < 3:
        continue
    m = json.load(open(mp))
    title = m["needs_to_manifest"].split("\n")[0].lstrip("# ").strip()
    title = re.sub(r"^(C\d\d\s+)?(round 2,?\s*)?(Change|Seed|change|seed)?\s*\d*\s*(\(C\d\d,? round 2\)|\(round 2\)|round 2\))?\s*[-:—(]*\s*", "", title)
    caught = "; ".join(f"{k}: `{esc(v['signatures'][0])[:90]}`" if v["quick"] == "CAUGHT" and v.get("signatures") else f"{k}: {v['quick'].lower()}" for k, v in m.get("checks", {}).items())
    rows.append(f"| {name} | {esc(title)[:150]} | {FIRST.get(name, '?')} | {caught} |")
put("seeds2", "\n".join(rows))
open(os.path.join(HERE, "DESIGN.md"), "w").write(s)
print("tables regenerated")
