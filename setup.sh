#!/bin/sh
# Offline setup: make sure the interpreter the checks use can import what they need.
HERE="$(cd "$(dirname "$0")" && pwd)"
cd "$HERE" || exit 2
PY="${VERIF_PYTHON:-/venv/bin/python}"
export PIP_NO_INDEX=1
mkdir -p .deps evidence replays
if ! PYTHONPATH="$HERE/.deps" "$PY" -c "import hypothesis" 2>/dev/null; then
  "$PY" -m pip install --no-index --find-links /opt/veriftools/wheels --target "$HERE/.deps" hypothesis || exit 2
fi
# optional add-on (thorough tier only); absence is reported in evidence, never fatal
if ! PYTHONPATH="$HERE/.deps" "$PY" -c "import atheris" 2>/dev/null; then
  "$PY" -m pip install --no-index --find-links /opt/veriftools/wheels --target "$HERE/.deps" atheris >/dev/null 2>&1 || true
fi
PYTHONPATH="${VERIF_REPO:-/repo}:$HERE:$HERE/.deps" "$PY" -c "import hypothesis, fakesnow, duckdb, sqlglot, snowflake.connector; print('setup ok: hypothesis', hypothesis.__version__)" || exit 2
