#!/venv/bin/python
"""Import and evaluate a seeded regression produced by an independent sub-agent.
   tools_seeded.py import <prop> <n> <src_dir> <i>   # verifies patch<i>/demo<i> in a fresh worktree, copies to seeded/<prop>-<n>/
   tools_seeded.py run <prop>-<n> [check-id ...]      # runs quick check(s) against a scratch worktree with the patch applied
"""
import json, shutil, os, shutil, subprocess, sys, tempfile
HERE = os.path.dirname(os.path.abspath(__file__))
DESEL = ["--deselect", "tests/test_fakes.py::test_get_result_batches", "--deselect", "tests/test_fakes.py::test_get_result_batches_dict"]

def worktree():
    wt = tempfile.mkdtemp(prefix="vf-seed-", dir="/tmp"); os.rmdir(wt)
    subprocess.run(["git", "-C", "/repo", "worktree", "add", "--detach", "-q", wt, "HEAD"], check=True)
    return wt

def rm(wt):
    subprocess.run(["git", "-C", "/repo", "worktree", "remove", "--force", wt], capture_output=True)
    shutil.rmtree(wt, ignore_errors=True)

def demo(wt, path):
    r = subprocess.run(["/venv/bin/python", path], cwd=wt, env={**os.environ, "PYTHONPATH": wt}, capture_output=True, text=True, timeout=300)
    return r.returncode, (r.stdout + r.stderr)[-400:]

def cmd_import(prop, n, src, i):
    dst = os.path.join(HERE, "seeded", f"{prop}-{n}")
    patch = os.path.join(src, f"patch{i}.diff"); dm = os.path.join(src, f"demo{i}.py"); notes = os.path.join(src, f"notes{i}.md")
    wt = worktree()
    try:
        d = os.path.join(wt, "_demo.py"); shutil.copy(dm, d)
        text = open(d).read().replace(os.path.dirname(src.rstrip("/")), wt)  # demos may hard-code their worktree path
        open(d, "w").write(text)
        rc0, out0 = demo(wt, d)
        ap = subprocess.run(["git", "-C", wt, "apply", patch], capture_output=True, text=True)
        if ap.returncode: print("PATCH DOES NOT APPLY", ap.stderr); return 1
        files = subprocess.run(["git", "-C", wt, "diff", "--stat"], capture_output=True, text=True).stdout
        t = subprocess.run(["/venv/bin/python", "-m", "pytest", "-q", "-p", "no:cacheprovider", *DESEL], cwd=wt, env={**os.environ, "PYTHONPATH": wt}, capture_output=True, text=True)
        tline = t.stdout.strip().splitlines()[-1]
        rc1, out1 = demo(wt, d)
        ok = rc0 == 0 and rc1 != 0 and " failed" not in (" " + tline.replace("xfailed", "")) and "196 passed" in tline
        print(f"{prop}-{n}: demo clean rc={rc0}, demo patched rc={rc1}, tests: {tline}\n{files}")
        if not ok:
            print("NOT CONFIRMED", out0 if rc0 else "", out1[-300:]); return 1
        os.makedirs(dst, exist_ok=True)
        shutil.copy(patch, os.path.join(dst, "patch.diff")); shutil.copy(d, os.path.join(dst, "demo.py"))
        if os.path.exists(notes): shutil.copy(notes, os.path.join(dst, "notes.md"))
        meta = {"property": prop, "source": "independent sub-agent given only the property text and a scratch worktree",
                "needs_to_manifest": open(notes).read()[:1500] if os.path.exists(notes) else "",
                "confirmed": {"repo_head": subprocess.run(["git", "-C", "/repo", "rev-parse", "--short", "HEAD"], capture_output=True, text=True).stdout.strip(),
                              "tests_with_patch": tline, "demo_rc_clean": rc0, "demo_rc_patched": rc1,
                              "how": "fresh git worktree of /repo HEAD under /tmp; demo run (PYTHONPATH=worktree) before and after `git apply patch.diff`; pytest with the two always-failing tests deselected"},
                "checks": {}}
        json.dump(meta, open(os.path.join(dst, "meta.json"), "w"), indent=1)
        return 0
    finally:
        rm(wt)

def cmd_run(name, checks):
    """Runs from a scratch copy of /verif (so /verif's own evidence and replays are untouched) against a scratch worktree of /repo."""
    import tempfile
    d = os.path.join(HERE, "seeded", name); meta = json.load(open(os.path.join(d, "meta.json")))
    checks = checks or [meta["property"]]
    wt = worktree()
    vcopy = tempfile.mkdtemp(prefix="vf-seedv-", dir="/tmp")
    try:
        subprocess.run(["git", "-C", wt, "apply", os.path.join(d, "patch.diff")], check=True)
        subprocess.run(["rsync", "-a", "--exclude", ".git", "--exclude", ".run", "--exclude", "seeded", HERE + "/", vcopy + "/"], check=True)
        for c in checks:
            r = subprocess.run(["./check", c, "quick"], cwd=vcopy, env={**os.environ, "VERIF_REPO": wt}, capture_output=True, text=True)
            sigs = [l.strip()[11:] for l in r.stdout.splitlines() if l.strip().startswith("signature:")]
            verdict = {0: "MISSED", 1: "CAUGHT", 2: "HARNESS-ERROR"}.get(r.returncode, str(r.returncode))
            print(f"{name} vs {c}: {verdict} {sigs[:4]}")
            if r.returncode == 2: print(r.stderr[-800:])
            meta["checks"][c] = {"quick": verdict, "signatures": sorted(set(sigs))[:6]}
        json.dump(meta, open(os.path.join(d, "meta.json"), "w"), indent=1)
    finally:
        rm(wt)
        shutil.rmtree(vcopy, ignore_errors=True)

if __name__ == "__main__":
    if sys.argv[1] == "import": sys.exit(cmd_import(sys.argv[2], sys.argv[3], sys.argv[4], sys.argv[5]))
    cmd_run(sys.argv[2], sys.argv[3:])
