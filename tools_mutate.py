#!/venv/bin/python
"""Sensitivity helper: apply a one-off edit to a scratch worktree of /repo, run a check against it, remove it.
   tools_mutate.py <ID> <file> <old> <new> [--tests] [--tier quick]
   tools_mutate.py <ID> --patch <diff> [--tests]
"""
import os, subprocess, sys, shutil, tempfile
args = sys.argv[1:]
pid = args[0]
run_tests = "--tests" in args
args = [a for a in args if a != "--tests"]
REP = os.path.join(os.path.dirname(os.path.abspath(__file__)), "replays")
before = set(os.listdir(REP)) if os.path.isdir(REP) else set()
wt = tempfile.mkdtemp(prefix="vf-mut-", dir="/tmp")
os.rmdir(wt)
subprocess.run(["git", "-C", "/repo", "worktree", "add", "--detach", "-q", wt, "HEAD"], check=True)
try:
    if args[1] == "--patch":
        subprocess.run(["git", "-C", wt, "apply", os.path.abspath(args[2])], check=True)
    else:
        f, old, new = args[1], args[2], args[3]
        p = os.path.join(wt, f)
        s = open(p).read()
        if s.count(old) < 1:
            print("OLD TEXT NOT FOUND"); sys.exit(3)
        open(p, "w").write(s.replace(old, new, 1))
    print(subprocess.run(["git", "-C", wt, "diff", "--stat"], capture_output=True, text=True).stdout.strip())
    if run_tests:
        r = subprocess.run(["/venv/bin/python", "-m", "pytest", "-q", "-p", "no:cacheprovider", "-x", "--deselect", "tests/test_fakes.py::test_get_result_batches", "--deselect", "tests/test_fakes.py::test_get_result_batches_dict"], cwd=wt, capture_output=True, text=True, env={**os.environ, "PYTHONPATH": wt})
        print("TESTS:", r.stdout.strip().splitlines()[-1])
    env = {**os.environ, "VERIF_REPO": wt}
    r = subprocess.run(["./check", pid, "quick"], cwd=os.path.dirname(os.path.abspath(__file__)), env=env, capture_output=True, text=True)
    lines = [l for l in r.stdout.splitlines() if not l.startswith("KNOWN-FINDING") and not l.startswith("  (+")]
    print("\n".join(l[:300] for l in lines[-14:]))
    print("EXIT", r.returncode, "=> CAUGHT" if r.returncode == 1 else "=> MISSED" if r.returncode == 0 else "=> HARNESS ERROR")
    if r.returncode == 2:
        print(r.stderr[-1500:])
finally:
    subprocess.run(["git", "-C", "/repo", "worktree", "remove", "--force", wt])
    shutil.rmtree(wt, ignore_errors=True)
    # replays written by mutant runs are not kept
    for f in set(os.listdir(REP)) - before:
        os.remove(os.path.join(REP, f))
    subprocess.run(["git", "-C", "/verif", "checkout", "--", "evidence"], capture_output=True)
