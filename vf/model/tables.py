"""Reference table model with a three-valued-logic predicate evaluator (used by C04, C12, C13)."""

from __future__ import annotations

from typing import Any

from vf.util import sql_lit

COLS = ["K", "V", "N", "B"]
TYPES = {"K": "INT", "V": "VARCHAR", "N": "INT", "B": "BOOLEAN"}
IDX = {c: i for i, c in enumerate(COLS)}


class BadPredicate(Exception):
    pass


def _cmp(op: str, a: Any, b: Any):
    if a is None or b is None:
        return None
    if op == "=":
        return a == b
    if op == "<>":
        return a != b
    if op == "<":
        return a < b
    if op == "<=":
        return a <= b
    if op == ">":
        return a > b
    if op == ">=":
        return a >= b
    raise BadPredicate(op)


def not3(a):
    return None if a is None else (not a)


def and3(a, b):
    if a is False or b is False:
        return False
    if a is None or b is None:
        return None
    return True


def or3(a, b):
    if a is True or b is True:
        return True
    if a is None or b is None:
        return None
    return False


def eval3(p: list, row: tuple, idx: dict = IDX):
    k = p[0]
    if k == "true":
        return True
    if k == "false":
        return False
    if k == "cmp":
        return _cmp(p[2], row[idx[p[1]]], p[3])
    if k == "cmpcol":
        return _cmp(p[2], row[idx[p[1]]], row[idx[p[3]]])
    if k == "isnull":
        return row[idx[p[1]]] is None
    if k == "notnull":
        return row[idx[p[1]]] is not None
    if k == "in":
        x = row[idx[p[1]]]
        res = False
        for c in p[2]:
            res = or3(res, _cmp("=", x, c))
        return res
    if k == "between":
        x = row[idx[p[1]]]
        return and3(_cmp(">=", x, p[2]), _cmp("<=", x, p[3]))
    if k == "and":
        return and3(eval3(p[1], row, idx), eval3(p[2], row, idx))
    if k == "or":
        return or3(eval3(p[1], row, idx), eval3(p[2], row, idx))
    if k == "not":
        return not3(eval3(p[1], row, idx))
    raise BadPredicate(str(k))


def pred_sql(p: list, qual: str = "") -> str:
    k = p[0]
    q = (qual + ".") if qual else ""
    if k == "true":
        return "1 = 1"
    if k == "false":
        return "1 = 0"
    if k == "cmp":
        return f"{q}{p[1]} {p[2]} {sql_lit(p[3])}"
    if k == "cmpcol":
        return f"{q}{p[1]} {p[2]} {q}{p[3]}"
    if k == "isnull":
        return f"{q}{p[1]} IS NULL"
    if k == "notnull":
        return f"{q}{p[1]} IS NOT NULL"
    if k == "in":
        return f"{q}{p[1]} IN ({', '.join(sql_lit(c) for c in p[2])})"
    if k == "between":
        return f"{q}{p[1]} BETWEEN {sql_lit(p[2])} AND {sql_lit(p[3])}"
    if k == "and":
        return f"({pred_sql(p[1], qual)} AND {pred_sql(p[2], qual)})"
    if k == "or":
        return f"({pred_sql(p[1], qual)} OR {pred_sql(p[2], qual)})"
    if k == "not":
        return f"(NOT {pred_sql(p[1], qual)})"
    raise BadPredicate(str(k))


def selftest() -> None:
    r = (1, None, 3, True)
    assert eval3(["cmp", "K", "=", 1], r) is True
    assert eval3(["cmp", "V", "=", "x"], r) is None
    assert eval3(["not", ["cmp", "V", "=", "x"]], r) is None
    assert eval3(["or", ["cmp", "V", "=", "x"], ["cmp", "K", "=", 1]], r) is True
    assert eval3(["and", ["cmp", "V", "=", "x"], ["cmp", "K", "=", 2]], r) is False
    assert eval3(["and", ["cmp", "V", "=", "x"], ["cmp", "K", "=", 1]], r) is None
    assert eval3(["in", "K", [2, None]], r) is None
    assert eval3(["in", "K", [1, None]], r) is True
    assert eval3(["not", ["in", "K", [2, None]]], r) is None
    assert eval3(["between", "N", 1, 3], r) is True
    assert eval3(["between", "N", None, 3], r) is None
    assert eval3(["between", "N", None, 2], r) is False
    assert eval3(["isnull", "V"], r) is True
    assert eval3(["cmpcol", "K", "<", "N"], r) is True
