"""Reference implementations of documented Snowflake semantics (restricted to the unambiguous parts).

Each function returns the Python value the connector would hand back, or raises Reject when Snowflake
itself raises (conversion error, out of range).  A worked-example table runs before every check.
"""

from __future__ import annotations

import datetime as dt
import decimal
import hashlib
import re
from decimal import Decimal

CTX = decimal.Context(prec=80, rounding=decimal.ROUND_HALF_UP)


class Reject(Exception):
    """Snowflake raises an error for this input."""


# ------------------------------------------------------------------ numbers


def to_decimal(x, p: int = 38, s: int = 0) -> Decimal:
    """TO_DECIMAL/TO_NUMBER/TO_NUMERIC and ::NUMBER(p,s): round half away from zero, range check."""
    if x is None:
        return None
    if isinstance(x, str):
        t = x.strip()
        if not re.fullmatch(r"[+-]?(\d+\.?\d*|\.\d+)([eE][+-]?\d+)?", t):
            raise Reject(f"not numeric: {x!r}")
        d = Decimal(t)
    elif isinstance(x, float):
        d = Decimal(repr(x))
    else:
        d = Decimal(x)
    q = d.quantize(Decimal(1).scaleb(-s), context=CTX)
    if q.copy_abs() >= Decimal(10) ** (p - s):
        raise Reject("out of range")
    return q


# ------------------------------------------------------------------ dates

DATE_PARTS = {
    "year": ["year", "y", "yy", "yyy", "yyyy", "yr", "years", "yrs"],
    "quarter": ["quarter", "q", "qtr", "qtrs", "quarters"],
    "month": ["month", "mm", "mon", "mons", "months"],
    "week": ["week", "w", "wk", "weekofyear", "woy", "wy"],
    "day": ["day", "d", "dd", "days", "dayofmonth"],
    "hour": ["hour", "h", "hh", "hr", "hours", "hrs"],
    "minute": ["minute", "m", "mi", "min", "minutes", "mins"],
    "second": ["second", "s", "sec", "seconds", "secs"],
    "millisecond": ["millisecond", "ms", "msec", "milliseconds"],
    "microsecond": ["microsecond", "us", "usec", "microseconds"],
}
DATE_UNITS = ("year", "quarter", "month", "week", "day")


def _add_months(d, n: int):
    y, m = divmod((d.year * 12 + d.month - 1) + n, 12)
    m += 1
    if not 1 <= y <= 9999:
        raise Reject("year out of range")
    last = [31, 29 if (y % 4 == 0 and (y % 100 != 0 or y % 400 == 0)) else 28, 31, 30, 31, 30, 31, 31, 30, 31, 30, 31][m - 1]
    return d.replace(year=y, month=m, day=min(d.day, last))


def dateadd(part: str, n: int, x):
    """x: date or naive datetime.  DATE stays DATE for year..day parts, otherwise TIMESTAMP_NTZ."""
    if x is None or n is None:
        return None
    is_date = not isinstance(x, dt.datetime)
    try:
        if part in ("year", "quarter", "month"):
            return _add_months(x, n * {"year": 12, "quarter": 3, "month": 1}[part])
        if part in ("week", "day"):
            return x + dt.timedelta(days=n * (7 if part == "week" else 1))
        base = dt.datetime(x.year, x.month, x.day) if is_date else x
        delta = {"hour": dt.timedelta(hours=n), "minute": dt.timedelta(minutes=n), "second": dt.timedelta(seconds=n), "millisecond": dt.timedelta(milliseconds=n), "microsecond": dt.timedelta(microseconds=n)}[part]
        return base + delta
    except OverflowError:
        raise Reject("out of range") from None


_EPOCH = dt.datetime(1970, 1, 1)


def datediff(part: str, a, b) -> int:
    """Number of <part> boundaries crossed from a to b (b - a)."""
    if a is None or b is None:
        return None
    ta = a if isinstance(a, dt.datetime) else dt.datetime(a.year, a.month, a.day)
    tb = b if isinstance(b, dt.datetime) else dt.datetime(b.year, b.month, b.day)
    if part == "year":
        return tb.year - ta.year
    if part == "quarter":
        return (tb.year * 4 + (tb.month - 1) // 3) - (ta.year * 4 + (ta.month - 1) // 3)
    if part == "month":
        return (tb.year * 12 + tb.month) - (ta.year * 12 + ta.month)
    us_a = (ta - _EPOCH) // dt.timedelta(microseconds=1)
    us_b = (tb - _EPOCH) // dt.timedelta(microseconds=1)
    if part == "week":
        # weeks start on Monday (WEEK_START default); 1970-01-05 was a Monday
        off = 4 * 86400 * 10**6
        return (us_b - off) // (7 * 86400 * 10**6) - (us_a - off) // (7 * 86400 * 10**6)
    unit = {"day": 86400 * 10**6, "hour": 3600 * 10**6, "minute": 60 * 10**6, "second": 10**6, "millisecond": 1000, "microsecond": 1}[part]
    return us_b // unit - us_a // unit


def to_timestamp_from_int(n: int, scale: int = 0) -> dt.datetime:
    try:
        return _EPOCH + dt.timedelta(microseconds=n * 10 ** (6 - scale)) if scale <= 6 else _EPOCH + dt.timedelta(microseconds=n // 10 ** (scale - 6))
    except OverflowError:
        raise Reject("out of range") from None


# ------------------------------------------------------------------ regex / strings


def regexp_replace(subject, pattern, replacement=""):
    if subject is None or pattern is None or replacement is None:
        return None
    return re.sub(pattern, _py_repl(replacement), subject)


def _py_repl(repl: str) -> str:
    """Snowflake replacement text (after SQL-literal unescaping) uses \\1 for groups like Python."""
    out, i = [], 0
    while i < len(repl):
        ch = repl[i]
        if ch == "\\" and i + 1 < len(repl) and repl[i + 1].isdigit():
            out.append("\\" + repl[i + 1])
            i += 2
        elif ch == "\\":
            out.append("\\\\")
            i += 1
        else:
            out.append(ch)
            i += 1
    return "".join(out)


def regexp_substr(subject, pattern, position=1, occurrence=1, params="c", group=None):
    if subject is None or pattern is None:
        return None
    flags = 0
    # the last of 'c' / 'i' wins
    for ch in params or "":
        if ch == "i":
            flags = re.IGNORECASE
        elif ch == "c":
            flags = 0
    extract = "e" in (params or "") or group is not None
    g = (group if group is not None else 1) if extract else 0
    ms = list(re.finditer(pattern, subject[position - 1 :], flags))
    if len(ms) < occurrence:
        return None
    m = ms[occurrence - 1]
    if g > (m.re.groups):
        return None
    return m.group(g)


def split(s, sep):
    if s is None or sep is None:
        return None
    if sep == "":
        return [s]
    return s.split(sep)


def trim(s, chars=" ", where="both"):
    if s is None or chars is None:
        return None
    s = s if isinstance(s, str) else str(s)
    if where == "both":
        return s.strip(chars) if chars else s
    if where == "left":
        return s.lstrip(chars) if chars else s
    return s.rstrip(chars) if chars else s


def sha2_hex(s, bits=256):
    if s is None:
        return None
    return hashlib.new(f"sha{bits}", s.encode("utf-8")).hexdigest()


def selftest() -> None:
    D = Decimal
    # examples from Snowflake's documentation and from expectations the repo's tests pin
    assert to_decimal("98.76546", 10, 1) == D("98.8")
    assert to_decimal("1.245", 10, 2) == D("1.25") and to_decimal("-2.5") == D("-3") and to_decimal("2.5") == D("3")
    assert to_decimal(12345.678, 10, 1) == D("12345.7")
    try:
        to_decimal("99999", 4, 0)
        raise AssertionError
    except Reject:
        pass
    assert dateadd("month", 1, dt.date(2020, 1, 31)) == dt.date(2020, 2, 29)
    assert dateadd("year", -1, dt.date(2020, 2, 29)) == dt.date(2019, 2, 28)
    assert dateadd("quarter", 1, dt.date(2020, 1, 31)) == dt.date(2020, 4, 30)
    assert dateadd("hour", 1, dt.date(2020, 1, 31)) == dt.datetime(2020, 1, 31, 1)
    assert dateadd("day", 3, dt.date(2023, 3, 3)) == dt.date(2023, 3, 6)
    assert datediff("week", dt.date(2023, 4, 2), dt.date(2023, 3, 2)) == -4  # pinned by the repo's tests
    assert datediff("year", dt.date(2019, 12, 31), dt.date(2020, 1, 1)) == 1
    assert datediff("month", dt.date(2020, 1, 31), dt.date(2020, 2, 1)) == 1
    assert datediff("day", dt.datetime(2020, 1, 1, 23, 59, 59), dt.datetime(2020, 1, 2)) == 1
    assert datediff("hour", dt.datetime(2020, 1, 1, 0, 59, 59), dt.datetime(2020, 1, 1, 1)) == 1
    assert datediff("second", dt.datetime(1969, 12, 31, 23, 59, 59, 999999), dt.datetime(1970, 1, 1)) == 1
    assert datediff("day", dt.date(2020, 3, 1), dt.date(2020, 2, 28)) == -2
    assert to_timestamp_from_int(-1) == dt.datetime(1969, 12, 31, 23, 59, 59)
    assert to_timestamp_from_int(1500, 3) == dt.datetime(1970, 1, 1, 0, 0, 1, 500000)
    assert regexp_replace("abcabc", "b(c)", "[\\1]") == "a[c]a[c]" and regexp_replace("abc", "b") == "ac"
    assert regexp_substr("abc abd abe", "ab(.)", 1, 2) == "abd"
    assert regexp_substr("abc abd abe", "ab(.)", 5, 1, "e") == "d"
    assert regexp_substr("abc abd abe", "AB(.)", 1, 3, "ie", 1) == "e"
    assert regexp_substr("abc", "x") is None
    assert split("a,b,,c", ",") == ["a", "b", "", "c"] and split("abc", "") == ["abc"] and split("a", "ab") == ["a"]
    assert trim("xxaxx", "x") == "a" and trim("  a  ") == "a" and trim("\ta ") == "\ta" and trim(123) == "123"
    assert trim("xxa", "x", "left") == "a" and trim("axx", "x", "right") == "a"
    assert sha2_hex("abc") == "ba7816bf8f01cfea414140de5dae2223b00361a396177a9cb410ff61f20015ad"
