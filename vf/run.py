from __future__ import annotations

import sys


def main(argv: list[str]) -> int:
    if len(argv) < 2:
        print("usage: check <ID> quick|thorough | check <ID> --replay <file>", file=sys.stderr)
        return 2
    prop_id = argv[0].upper()
    from vf import engine

    try:
        if argv[1] == "--replay":
            return engine.run_replay(prop_id, argv[2])
        tier = argv[1]
        if tier not in ("quick", "thorough"):
            print(f"unknown tier {tier}", file=sys.stderr)
            return 2
        return engine.run_check(prop_id, tier)
    except SystemExit:
        raise
    except BaseException:
        import traceback

        print("HARNESS-ERROR:", file=sys.stderr)
        traceback.print_exc()
        return 2


if __name__ == "__main__":
    sys.exit(main(sys.argv[1:]))
