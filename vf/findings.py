"""known_findings.json: read-only at run time."""

from __future__ import annotations

import json
import os
import re

HERE = os.path.dirname(os.path.dirname(os.path.abspath(__file__)))
PATH = os.path.join(HERE, "known_findings.json")


def entry_matches(e: dict, signature: str) -> bool:
    if e.get("status") != "open":
        return False
    if "signature" in e and e["signature"] == signature:
        return True
    if "signature_regex" in e and re.fullmatch(e["signature_regex"], signature):
        return True
    return False


class Known:
    def __init__(self, prop_id: str):
        try:
            with open(PATH) as f:
                allf = json.load(f)
        except FileNotFoundError:
            allf = []
        self.entries = [e for e in allf if e["property"] == prop_id]
        self._open = [e for e in self.entries if e["status"] == "open"]

    def matches(self, signature: str) -> bool:
        return any(entry_matches(e, signature) for e in self._open)
