from snowflake.connector import connect  # noqa: F401  (a from-import target for fakesnow.patch)
