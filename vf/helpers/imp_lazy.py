# imported for the first time *inside* fakesnow.patch (not-yet-imported extra target)
from snowflake.connector import connect  # noqa: F401
