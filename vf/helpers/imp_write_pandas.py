from snowflake.connector.pandas_tools import write_pandas  # noqa: F401
