"""Target run by `fakesnow -m vf.helpers.cli_target` / `fakesnow <this file>`: records what it was handed."""
import json
import os
import sys

import snowflake.connector

if __name__ == "__main__":
    rec = {"argv": list(sys.argv)}
    try:
        conn = snowflake.connector.connect(database="db1", schema="s1")
        rec["row"] = conn.cursor().execute("select 42").fetchall()[0][0]
        rec["fake"] = type(conn).__module__.startswith("fakesnow")
    except Exception as e:  # the real connector would fail to log in
        rec["error"] = f"{type(e).__name__}: {e}"
    with open(os.environ["VF_CLI_RECORD"], "w") as f:
        json.dump(rec, f)
