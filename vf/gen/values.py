"""Value strategies per Snowflake type family, biased to edges.  All values are returned *encoded* (util.enc)."""

from __future__ import annotations

import datetime as dt
from decimal import Decimal

from hypothesis import strategies as st

from vf.util import enc

# Text that may be embedded in SQL text executed through fakesnow.  NUL cannot be carried by DuckDB SQL text
# (not fakesnow's claim); '$' is excluded everywhere except C15/C08/C16, whose subject it is.
_BASE_EXCL = "\x00"
safe_chars = st.characters(codec="utf-8", exclude_characters=_BASE_EXCL + "$", exclude_categories=["Cs"])
any_chars = st.characters(codec="utf-8", exclude_characters=_BASE_EXCL, exclude_categories=["Cs"])

ADVERSARIAL = ["'", '"', "\\", "\n", "%", "%s", "%%", "?", ";", "--", "/*", "*/", "''", "\\'", "'); DROP TABLE t; --", "\t", " ", "é", "\U0001F600", "{", "}", ":", "(", ")"]


def text(max_size: int = 8, dollar: bool = False):
    chars = any_chars if dollar else safe_chars
    adv = [a for a in ADVERSARIAL] + (["$", "$x", "$1", "$$"] if dollar else [])
    piece = st.one_of(st.text(alphabet=chars, max_size=max_size), st.sampled_from(adv), st.text(alphabet="abAB01 _", max_size=max_size))
    return st.lists(piece, min_size=0, max_size=3).map("".join)


INT_EDGES = [0, 1, -1, 2**31, -(2**31), 2**31 - 1, 2**31 + 1, -(2**31) - 1, 2**63 - 1, -(2**63), 100000, 255, 256, 32767, 32768, 2**53 + 1]
ints = st.one_of(st.sampled_from(INT_EDGES), st.integers(-(2**63), 2**63 - 1))

FLOAT_EDGES = [0.0, 1.0, -1.0, 0.1, 1.7976931348623157e308, -1.7976931348623157e308, 2.2250738585072014e-308, 5e-324, 1.0000000000000002, float(2**53 + 2), 1e-7, 123456789.123456789, 3.4028235e38, 1e39]
floats = st.one_of(st.sampled_from(FLOAT_EDGES), st.floats(allow_nan=False, allow_infinity=False, width=64).filter(lambda x: not (x == 0 and str(x).startswith("-"))))


def decimals(p: int, s: int):
    """Decimals exactly representable at NUMBER(p,s)."""
    hi = 10**p - 1
    edges = [0, 1, -1, hi, -hi, 10 ** (p - 1) if p > 1 else 1, 5]
    ctx = __import__("decimal").Context(prec=80)
    return st.one_of(st.sampled_from(edges), st.integers(-hi, hi)).map(lambda n: Decimal(n).scaleb(-s, context=ctx))


dates = st.one_of(
    st.sampled_from([dt.date(1970, 1, 1), dt.date(1969, 12, 31), dt.date(1970, 1, 2), dt.date(2000, 2, 29), dt.date(1900, 2, 28), dt.date(9999, 12, 31), dt.date(1, 1, 1), dt.date(1999, 12, 31), dt.date(2024, 2, 29)]),
    st.dates(),
)
times = st.one_of(
    st.sampled_from([dt.time(0, 0, 0), dt.time(23, 59, 59, 999999), dt.time(0, 0, 0, 1), dt.time(12, 0, 0)]),
    st.times(),
)
_TS_EDGES = [
    dt.datetime(1970, 1, 1), dt.datetime(1969, 12, 31, 23, 59, 59, 999999), dt.datetime(1969, 12, 31, 23, 59, 59, 1),
    dt.datetime(1, 1, 1), dt.datetime(9999, 12, 31, 23, 59, 59, 999999), dt.datetime(2000, 2, 29, 12, 0, 0, 1),
    dt.datetime(1900, 1, 1, 0, 0, 0, 500000), dt.datetime(2038, 1, 19, 3, 14, 8), dt.datetime(1677, 9, 21, 0, 12, 43), dt.datetime(2262, 4, 12),
]
timestamps = st.one_of(st.sampled_from(_TS_EDGES), st.datetimes(min_value=dt.datetime(1, 1, 1), max_value=dt.datetime(9999, 12, 31, 23, 59, 59, 999999)))
timestamps_tz = st.one_of(
    st.sampled_from([e for e in _TS_EDGES if 1 < e.year < 9999]),
    st.datetimes(min_value=dt.datetime(2, 1, 1), max_value=dt.datetime(9998, 12, 31)),
).map(lambda d: d.replace(tzinfo=dt.timezone.utc))
binaries = st.one_of(st.sampled_from([b"", b"\x00", b"\xff\xff", b"abc", b"\x00\x01\x02"]), st.binary(max_size=12))

json_scalars = st.one_of(
    st.none(), st.booleans(), st.integers(-(2**31), 2**31), st.integers(-1000, 1000).map(lambda k: k / 4.0),
    st.text(alphabet="abcXYZ 01'\"\\/\n\té{}[],:", max_size=6),
)
JSON_KEYS = ["a", "b", "A", "k1", "x y", "key", "0", "é", "a.b"]


def json_docs(max_leaves: int = 10, keys=None):
    ks = st.sampled_from(keys or JSON_KEYS)
    return st.recursive(
        json_scalars,
        lambda c: st.one_of(st.lists(c, max_size=4), st.dictionaries(ks, c, max_size=4)),
        max_leaves=max_leaves,
    )


def encoded(strategy):
    return strategy.map(enc)
