"""Instrumentation from outside the repository: a duck-typed proxy around the DuckDB connection that calls a hook
before every engine call.  Used by C19 (deterministic scheduler) and C18 (kill switch / tracer)."""

from __future__ import annotations

import threading
from typing import Any, Callable

import duckdb

import fakesnow.instance as fsi

_local = threading.local()


def set_session(sid: Any) -> None:
    _local.sid = sid


def get_session() -> Any:
    return getattr(_local, "sid", None)


class Proxy:
    """Forwards everything to the real DuckDB connection; `execute` first calls the hook (a yield point)."""

    def __init__(self, real: Any, hook: Callable[[str, Any], None]):
        object.__setattr__(self, "_real", real)
        object.__setattr__(self, "_hook", hook)

    def execute(self, sql: Any, *a: Any, **k: Any) -> Any:
        self._hook("execute", sql)
        try:
            self._real.execute(sql, *a, **k)
        finally:
            self._hook("executed", sql)
        return self

    def cursor(self) -> "Proxy":
        return Proxy(self._real.cursor(), self._hook)

    def fetchall(self) -> Any:
        return self._real.fetchall()

    def fetchone(self) -> Any:
        return self._real.fetchone()

    def fetch_arrow_table(self, *a: Any, **k: Any) -> Any:
        return self._real.fetch_arrow_table(*a, **k)

    def close(self) -> None:
        self._real.close()

    def __getattr__(self, name: str) -> Any:
        return getattr(self._real, name)


class Shim:
    """Stands in for the `duckdb` module inside fakesnow.instance."""

    def __init__(self, hook: Callable[[str, Any], None], real_connect: Callable[..., Any] | None = None):
        self._hook = hook
        self._connect = real_connect or duckdb.connect

    def connect(self, *a: Any, **k: Any) -> Proxy:
        return Proxy(self._connect(*a, **k), self._hook)

    def __getattr__(self, name: str) -> Any:
        return getattr(duckdb, name)


class installed:
    """Context manager: FakeSnow instances created inside use proxied engine connections."""

    def __init__(self, hook: Callable[[str, Any], None]):
        self.hook = hook

    def __enter__(self) -> "installed":
        self._old = fsi.duckdb
        fsi.duckdb = Shim(self.hook, real_connect=duckdb.connect)  # type: ignore[assignment]
        return self

    def __exit__(self, *exc: Any) -> None:
        fsi.duckdb = self._old


class Deadlock(Exception):
    pass


class Scheduler:
    """One session thread runs at a time; before every engine call a session parks until it is granted the turn.
    The schedule (a list of session ids) says who takes each successive engine call; when the named session is not
    runnable the lowest runnable one goes instead, so every schedule is feasible."""

    def __init__(self, n: int, schedule: list[int], step_timeout: float = 20.0):
        self.n = n
        self.schedule = list(schedule)
        self.cond = threading.Condition()
        self.state = ["new"] * n  # new | running | parked | done
        self.turn: int | None = None
        self.trace: list[tuple[int, str]] = []
        self.step_timeout = step_timeout
        self.preemptions = 0
        self.active = True
        self.grace = 0.4  # how long a non-parked session may take to reach its next engine call before it counts as blocked
        self.blocked_waits = 0

    # ---- called from session threads
    def hook(self, event: str, sql: Any) -> None:
        sid = get_session()
        if sid is None or not self.active or event != "execute":
            return
        with self.cond:
            self.state[sid] = "parked"
            self.cond.notify_all()
            while self.turn != sid:
                if not self.cond.wait(self.step_timeout * 3):
                    raise Deadlock(f"session {sid} never got the turn")
            self.turn = None
            self.state[sid] = "running"
            self.trace.append((sid, " ".join(str(sql).split())[:60]))
            self.cond.notify_all()

    def started(self, sid: int) -> None:
        with self.cond:
            self.state[sid] = "running"
            self.cond.notify_all()

    def finished(self, sid: int) -> None:
        with self.cond:
            self.state[sid] = "done"
            self.cond.notify_all()

    # ---- controller (main thread)
    def drive(self) -> None:
        step = 0
        last = None
        while True:
            with self.cond:
                ok = self.cond.wait_for(lambda: all(s in ("parked", "done") for s in self.state), self.grace)
                runnable = [i for i, s in enumerate(self.state) if s == "parked"]
                if not ok:
                    # a session is neither parked nor done: it is blocked on a Python-level lock held by a parked session
                    # (or just slow).  Let a parked session go on; only if nobody can move is it a hang.
                    self.blocked_waits += 1
                    if not runnable:
                        ok = self.cond.wait_for(lambda: any(s == "parked" for s in self.state) or all(s == "done" for s in self.state), self.step_timeout)
                        runnable = [i for i, s in enumerate(self.state) if s == "parked"]
                        if not ok:
                            self.active = False
                            self.cond.notify_all()
                            raise Deadlock(f"no session can make progress: states {self.state}, trace {self.trace[-6:]}")
                if not runnable:
                    if all(s == "done" for s in self.state):
                        return
                    continue
                want = self.schedule[step] if step < len(self.schedule) else None
                pick = want if want in runnable else (last if last in runnable else runnable[0])
                if last is not None and pick != last and last in runnable:
                    self.preemptions += 1
                last = pick
                step += 1
                self.turn = pick
                self.cond.notify_all()
                self.cond.wait_for(lambda: self.turn is None, self.step_timeout)
