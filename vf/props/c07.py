"""C07 — failures are Snowflake errors with the right codes, and change nothing."""

from __future__ import annotations

import snowflake.connector.errors
from hypothesis import strategies as st

import fakesnow
from vf.engine import Ctx, Facet, InvalidCase, Prop
from vf.util import close_instance, diff_snap, etype_name, new_instance, run, snapshot

ALLOWED = {(2003, "42S02"), (2043, "02000"), (90105, "22000"), (90106, "22000")}

# (cause, position, sql, exact (errno, sqlstate) or None)
FAILING = [
    ("unknown-table", "from", "SELECT * FROM NOPE", (2003, "42S02")),
    ("unknown-table", "from-qualified", "SELECT * FROM DB1.S1.NOPE", (2003, "42S02")),
    ("unknown-table", "join", "SELECT * FROM T JOIN NOPE ON T.K = NOPE.K", (2003, "42S02")),
    ("unknown-table", "subquery", "SELECT * FROM (SELECT * FROM NOPE) q", (2003, "42S02")),
    ("unknown-table", "cte", "WITH c AS (SELECT * FROM NOPE) SELECT * FROM c", (2003, "42S02")),
    ("unknown-table", "where-in-subquery", "SELECT K FROM T WHERE K IN (SELECT K FROM NOPE)", (2003, "42S02")),
    ("unknown-table", "insert-target", "INSERT INTO NOPE VALUES (1, 'a')", None),
    ("unknown-table", "insert-select-source", "INSERT INTO T SELECT * FROM NOPE", None),
    ("unknown-table", "update-target", "UPDATE NOPE SET K = 1", None),
    ("unknown-table", "delete-target", "DELETE FROM NOPE WHERE K = 1", None),
    ("unknown-table", "ctas-source", "CREATE TABLE X1 AS SELECT * FROM NOPE", None),
    ("unknown-table", "clone-source", "CREATE TABLE X2 CLONE NOPE", None),
    ("unknown-table", "view-body", "CREATE VIEW X3 AS SELECT * FROM NOPE", None),
    ("unknown-table", "merge-target", "MERGE INTO NOPE USING T2 ON NOPE.K = T2.K WHEN MATCHED THEN DELETE", None),
    ("unknown-table", "merge-source", "MERGE INTO T USING NOPE ON T.K = NOPE.K WHEN MATCHED THEN DELETE", None),
    ("unknown-table", "describe", "DESCRIBE TABLE NOPE", None),
    ("unknown-table", "alter", "ALTER TABLE NOPE ADD COLUMN C INT", None),
    ("unknown-table", "drop-table", "DROP TABLE NOPE", None),
    ("unknown-table", "drop-view", "DROP VIEW NOPE", None),
    ("unknown-table", "truncate", "TRUNCATE TABLE NOPE", None),
    ("unknown-table", "comment-on", "COMMENT ON TABLE NOPE IS 'x'", None),
    ("unknown-table", "alter-set-comment", "ALTER TABLE NOPE SET COMMENT = 'x'", None),
    ("unknown-table", "write_pandas", "<write_pandas NOPE>", None),
    ("unknown-schema", "from", "SELECT * FROM NOS.T", None),
    ("unknown-schema", "create-table", "CREATE TABLE NOS.X4 (I INT)", None),
    ("unknown-schema", "use-schema", "USE SCHEMA NOS", None),
    ("unknown-schema", "drop-schema", "DROP SCHEMA NOS", None),
    ("unknown-database", "from", "SELECT * FROM NODB.S1.T", None),
    ("unknown-database", "use-database", "USE DATABASE NODB", None),
    ("unknown-database", "create-schema", "CREATE SCHEMA NODB.S9", None),
    ("unknown-database", "use-schema-qualified", "USE SCHEMA NODB.S1", None),
    ("unknown-column", "select-list", "SELECT NOCOL FROM T", None),
    ("unknown-column", "where", "SELECT * FROM T WHERE NOCOL = 1", None),
    ("unknown-column", "insert-column-list", "INSERT INTO T (NOCOL) VALUES (1)", None),
    ("unknown-column", "update-set", "UPDATE T SET NOCOL = 1", None),
    ("unknown-column", "order-by", "SELECT K FROM T ORDER BY NOCOL", None),
    ("unknown-function", "select-list", "SELECT NO_SUCH_FUNCTION(K) FROM T", None),
    ("unknown-function", "where", "SELECT K FROM T WHERE NO_SUCH_FUNCTION(K) = 1", None),
    ("already-exists", "table", "CREATE TABLE T (I INT)", None),
    ("already-exists", "view", "CREATE VIEW V AS SELECT 1 AS ONE", None),
    ("already-exists", "schema", "CREATE SCHEMA S1", None),
    ("already-exists", "database", "CREATE DATABASE DB1", None),
    ("already-exists", "table-as-view", "CREATE VIEW T AS SELECT 1 AS ONE", None),
    ("wrong-number-of-values", "too-few", "INSERT INTO T VALUES (1)", None),
    ("wrong-number-of-values", "too-many-for-column-list", "INSERT INTO T (K) VALUES (1, 'a')", None),
    ("undefined-variable", "select-list", "SELECT $NOT_DEFINED", "variable"),
    ("undefined-variable", "dml", "INSERT INTO T VALUES ($NOT_DEFINED, 'a')", "variable"),
    # failing DDL that carries Snowflake-side metadata: nothing of it may be recorded
    ("already-exists", "table-with-comment", "CREATE TABLE T (I INT) COMMENT = 'must not stick'", None),
    ("already-exists", "table-with-lengths", "CREATE TABLE T (K INT, V VARCHAR(3))", None),
    ("unknown-table", "ctas-source-with-comment", "CREATE TABLE X3 COMMENT = 'ghost' AS SELECT * FROM NOPE", None),
    ("unknown-column", "ctas-with-comment", "CREATE TABLE X4 COMMENT = 'ghost' AS SELECT NO_SUCH_COL FROM T", None),
    # (new entries go at the end: recorded replays name statements by index)
    ("unknown-table", "executemany", "<executemany INSERT INTO NOPE VALUES (%s, %s)>", None),
    ("unknown-column", "executemany", "<executemany INSERT INTO T (K, NOCOL) VALUES (%s, %s)>", None),
    ("wrong-number-of-values", "executemany", "<executemany INSERT INTO T (K) VALUES (%s, %s)>", None),
    # several variables in one SET with the wrong number of values: if the statement is rejected, none of the variables may have been assigned
    ("wrong-number-of-values", "multi-set-too-few", "SET (LO, HI, STEP) = (100, 200)", "may-succeed"),
    ("wrong-number-of-values", "multi-set-too-many", "SET (LO, HI) = (7, 8, 9)", "may-succeed"),
    ("wrong-number-of-values", "multi-set-one-value", "SET (LO, HI) = (7)", "may-succeed"),
]
NOCTX = [
    ("no-current-database", "select", "SELECT * FROM T", (90105, "22000")),
    ("no-current-database", "create-table", "CREATE TABLE X5 (I INT)", (90105, "22000")),
    ("no-current-database", "insert", "INSERT INTO T VALUES (1, 'a')", (90105, "22000")),
    ("no-current-database", "create-schema", "CREATE SCHEMA S9", (90105, "22000")),
    ("no-current-schema", "select", "SELECT * FROM T", (90106, "22000")),
    ("no-current-schema", "create-table", "CREATE TABLE X5 (I INT)", (90106, "22000")),
    ("no-current-schema", "delete", "DELETE FROM T", (90106, "22000")),
    # the unqualified table is the statement's own (outer) table; a fully qualified table appears elsewhere in the statement
    ("no-current-schema", "outer-from+qualified-scalar-subquery", "SELECT K, (SELECT MAX(K) FROM DB1.S1.T2) AS M FROM T", (90106, "22000")),
    ("no-current-schema", "outer-from+qualified-in-subquery", "SELECT * FROM T WHERE K IN (SELECT K FROM DB1.S1.T2)", (90106, "22000")),
    ("no-current-schema", "insert-target+qualified-source", "INSERT INTO T SELECT * FROM DB1.S1.T2", (90106, "22000")),
    ("no-current-schema", "ctas-target+qualified-source", "CREATE TABLE X5 AS SELECT * FROM DB1.S1.T", (90106, "22000")),
    ("no-current-schema", "join-left+qualified-right", "SELECT * FROM T JOIN DB1.S1.T2 ON T.K = T2.K", (90106, "22000")),
    ("no-current-schema", "update-target+qualified-subquery", "UPDATE T SET K = 1 WHERE K IN (SELECT K FROM DB1.S1.T2)", (90106, "22000")),
    ("no-current-database", "outer-from+qualified-scalar-subquery", "SELECT K, (SELECT MAX(K) FROM DB1.S1.T2) AS M FROM T", (90105, "22000")),
    ("no-current-database", "insert-target+qualified-source", "INSERT INTO T SELECT * FROM DB1.S1.T2", (90105, "22000")),
]
FOLLOW = [
    "SELECT K, V FROM T ORDER BY K",
    "INSERT INTO T VALUES (50, 'after')",
    "UPDATE T SET V = 'upd' WHERE K = 1",
    "SELECT $MYVAR",
    "CREATE TABLE AFTERWARDS (I INT)",
    "SELECT count(*) FROM T2",
    "SELECT * FROM V",
    "DESCRIBE TABLE T",
    "SELECT CURRENT_DATABASE(), CURRENT_SCHEMA()",
    "CALL SOME_PROCEDURE()",  # matched by the instance's nop_regexes: succeeds as a no-op (another exit path of execute)
    "call other_proc(1, 'x')",
]


@st.composite
def _case(draw, tier):
    which = draw(st.sampled_from(["ctx", "ctx", "ctx", "noctx"]))
    if which == "ctx":
        idx = draw(st.integers(0, len(FAILING) - 1))
    else:
        idx = draw(st.integers(0, len(NOCTX) - 1))
    return {
        "which": which,
        "idx": idx,
        "in_tx": draw(st.booleans()),
        "dict_cursor": draw(st.booleans()),
        "same_cursor_followup": draw(st.booleans()),
        "follow": draw(st.lists(st.integers(0, len(FOLLOW) - 1), min_size=1, max_size=4)),
        "end_tx": draw(st.sampled_from(["commit", "rollback"])),
    }


def _setup(fs, which: str, idx: int):
    if which == "ctx":
        conn = fs.connect("db1", "s1")
    else:
        boot = fs.connect("db1", "s1")
        conn = fs.connect(None, None) if NOCTX[idx][0] == "no-current-database" else fs.connect("db1", None)
    cur = (boot if which != "ctx" else conn).cursor()
    for sql in [
        "CREATE TABLE DB1.S1.T (K INT, V VARCHAR(20))",
        "INSERT INTO DB1.S1.T VALUES (1, 'one'), (2, 'two'), (3, NULL)",
        "CREATE VIEW DB1.S1.V AS SELECT K FROM DB1.S1.T",
        "CREATE SCHEMA DB1.S2",
        "CREATE TABLE DB1.S1.T2 (K INT)",
        "INSERT INTO DB1.S1.T2 VALUES (1), (9)",
        "COMMENT ON TABLE DB1.S1.T IS 'a table'",
    ]:
        cur.execute(sql)
    conn.cursor().execute("SET MYVAR = 5")
    return conn


def _do_failing(conn, cur, sql: str):
    if sql.startswith("<write_pandas"):
        import pandas as pd

        o = run(cur, "SELECT 1")  # placeholder so that `o` has the cursor type
        o.ok = False
        try:
            fakesnow.fakes.write_pandas(conn, pd.DataFrame({"K": [1], "V": ["x"]}), "NOPE")
            o.ok = True
            o.rows = "write_pandas returned"
        except Exception as e:
            o.exc, o.etype = e, etype_name(e)
            o.errno, o.sqlstate, o.msg = getattr(e, "errno", None), getattr(e, "sqlstate", None), getattr(e, "msg", None) or str(e)
        return o
    if sql.startswith("<executemany "):
        o = run(cur, "SELECT 1")
        o.ok = False
        try:
            cur.executemany(sql[len("<executemany "):-1], [(1, "a"), (2, "b"), (3, "c")])
            o.ok = True
            o.rows = "executemany returned"
        except Exception as e:
            o.exc, o.etype = e, etype_name(e)
            o.errno, o.sqlstate, o.msg = getattr(e, "errno", None), getattr(e, "sqlstate", None), getattr(e, "msg", None) or str(e)
        return o
    return run(cur, sql)


def run_failure(case, ctx: Ctx) -> None:
    which, idx = case["which"], case["idx"]
    table = FAILING if which == "ctx" else NOCTX
    if which not in ("ctx", "noctx") or not isinstance(idx, int) or not 0 <= idx < len(table):
        raise InvalidCase()
    cause, pos, sql, exact = table[idx]
    from snowflake.connector.cursor import DictCursor, SnowflakeCursor

    fs, twin = new_instance(nop_regexes=[r"^CALL\s"]), new_instance(nop_regexes=[r"^CALL\s"])
    try:
        conn, tconn = _setup(fs, which, idx), _setup(twin, which, idx)
        other = fs.connect("db1", "s1")
        cls = DictCursor if case.get("dict_cursor") else SnowflakeCursor
        cur, tcur = conn.cursor(cls), tconn.cursor(cls)
        in_tx = bool(case.get("in_tx")) and which == "ctx"
        if in_tx:
            for c_ in (cur, tcur):
                c_.execute("BEGIN")
                c_.execute("INSERT INTO DB1.S1.T VALUES (77, 'pending')")
        ctx.cls(f"cause:{cause}", f"pos:{cause}/{pos}", "in-transaction" if in_tx else "autocommit")
        ctx.nontrivial = not (cause == "unknown-table" and pos == "from") or in_tx
        sig = lambda what: f"C07|{cause}|{pos}|{what}"  # noqa: E731

        snap0 = snapshot(fs)
        ctx0 = (conn.database, conn.schema)
        o = _do_failing(conn, cur, sql)
        if o.ok and exact == "may-succeed":
            ctx.cls("form-accepted-by-this-tree")  # (then it is not a failing statement, and this check has nothing to say about it)
            return
        if exact == "may-succeed":
            exact = None
            for name in ("LO", "HI", "STEP"):
                v = run(conn.cursor(), f"SELECT ${name}")
                if v.ok:
                    ctx.fail(sig("rejected-but-variable-assigned"), f"{sql} failed with {o}, yet ${name} = {v.rows!r}")
        if o.ok:
            ctx.fail(sig("not-rejected"), f"{sql} succeeded: {o.rows!r}")
        else:
            if not isinstance(o.exc, snowflake.connector.errors.ProgrammingError):
                ctx.fail(sig(f"wrong-exception|{o.etype}"), f"{sql}: {o}")
            elif exact == "variable":
                if o.msg != "Session variable '$NOT_DEFINED' does not exist":
                    ctx.fail(sig("wrong-message"), f"{o.msg!r}")
            else:
                code = (o.errno, o.sqlstate)
                if exact is not None and code != exact:
                    ctx.fail(sig(f"wrong-errno|got={o.errno}/{o.sqlstate}"), f"{sql}: {o}")
                elif code not in ALLOWED:
                    ctx.fail(sig(f"errno-not-a-snowflake-code|got={o.errno}/{o.sqlstate}"), f"{sql}: {o}")
            if not sql.startswith("<write_pandas") and isinstance(o.exc, snowflake.connector.errors.ProgrammingError):
                if cur.sqlstate != o.sqlstate:
                    ctx.fail(sig("cursor.sqlstate-not-set"), f"cursor.sqlstate={cur.sqlstate!r}, error sqlstate={o.sqlstate!r}")
        # nothing changed
        snap1 = snapshot(fs)
        if snap1 != snap0:
            ctx.fail(sig("state-changed"), diff_snap(snap0, snap1))
        if (conn.database, conn.schema) != ctx0:
            ctx.fail(sig("context-changed"), f"{ctx0} -> {(conn.database, conn.schema)}")
        v = run(conn.cursor(), "SELECT $MYVAR")
        if not v.ok or v.rows != [(5,)]:
            ctx.fail(sig("variables-changed"), f"{v}")
        if in_tx:
            mine = run(conn.cursor(), "SELECT K FROM DB1.S1.T WHERE K = 77")
            theirs = run(other.cursor(), "SELECT K FROM DB1.S1.T WHERE K = 77")
            if not mine.ok or mine.rows != [(77,)]:
                ctx.fail(sig("transaction-lost-own-write"), f"{mine}")
            if not theirs.ok or theirs.rows != []:
                ctx.fail(sig("transaction-leaked"), f"{theirs}")
        # follow-up statements behave as on a twin that never saw the failure
        if which == "ctx":
            fcur = cur if case.get("same_cursor_followup") else conn.cursor(cls)
            ftcur = tcur if case.get("same_cursor_followup") else tconn.cursor(cls)
            first = True
            for fi in case["follow"]:
                if not isinstance(fi, int) or not 0 <= fi < len(FOLLOW):
                    raise InvalidCase()
                a, b = run(fcur, FOLLOW[fi]), run(ftcur, FOLLOW[fi])
                if (a.ok, repr(a.rows), a.err_key()) != (b.ok, repr(b.rows), b.err_key()):
                    ctx.fail(sig("follow-up-differs-from-twin"), f"{FOLLOW[fi]}: {a} vs twin {b}")
                    break
                if a.ok and fcur is cur and cur.sqlstate is not None:
                    ctx.fail(sig("cursor.sqlstate-not-reset" + ("|after-nop" if FOLLOW[fi].upper().startswith("CALL") else "")), f"after successful {FOLLOW[fi]}: {cur.sqlstate!r}")
                first = False
            if in_tx:
                end = case.get("end_tx", "rollback").upper()
                a, b = run(conn.cursor(), end, fetch=False), run(tconn.cursor(), end, fetch=False)
                if a.ok != b.ok:
                    ctx.fail(sig("transaction-end-differs-from-twin"), f"{end}: {a} vs {b}")
                sa, sb = snapshot(fs), snapshot(twin)
                if sa != sb:
                    ctx.fail(sig("final-state-differs-from-twin"), diff_snap(sb, sa))
    finally:
        close_instance(fs)
        close_instance(twin)


# ------------------------------------------------------------------------------------------ closed connection

CLOSED_USES = ["cursor.execute", "old-cursor.execute", "execute_string", "commit", "rollback", "write_pandas", "old-cursor.description", "cursor.executemany"]


@st.composite
def _closed_case(draw, tier):
    return {"uses": draw(st.lists(st.integers(0, len(CLOSED_USES) - 1), min_size=1, max_size=6)), "had_tx": draw(st.booleans()), "args": draw(st.sampled_from(["db+schema", "db", "none"]))}


def run_closed(case, ctx: Ctx) -> None:
    fs = new_instance()
    try:
        a = {"db+schema": ("db1", "s1"), "db": ("db1", None), "none": (None, None)}.get(case["args"])
        if a is None:
            raise InvalidCase()
        keep = fs.connect("db1", "s1")
        keep.cursor().execute("CREATE TABLE T (K INT, V VARCHAR)")
        conn = fs.connect(*a)
        old = conn.cursor()
        try:
            old.execute("SELECT * FROM DB1.S1.NO_SUCH_TABLE")
        except Exception:
            pass
        stale = old.sqlstate
        old.execute("SELECT 1")
        try:
            old.execute("SELECT * FROM DB1.S1.NO_SUCH_TABLE")
        except Exception:
            pass
        if case.get("had_tx"):
            old.execute("BEGIN")
            old.execute("SELECT 1")  # keep a query as the cursor's last statement
        conn.close()
        if not conn.is_closed():
            ctx.fail("C07|closed|is_closed-false", "")
        ctx.nontrivial = True
        for ui in case["uses"]:
            if not isinstance(ui, int) or not 0 <= ui < len(CLOSED_USES):
                raise InvalidCase()
            use = CLOSED_USES[ui]
            ctx.cls(f"closed:{use}")
            try:
                if use == "cursor.execute":
                    conn.cursor().execute("SELECT 1")
                elif use == "old-cursor.execute":
                    try:
                        old.execute("SELECT 2")
                    finally:
                        if old.sqlstate == "42S02":
                            ctx.fail("C07|closed|stale-sqlstate-after-execute", f"cursor.sqlstate still {old.sqlstate!r} (from an earlier failed statement) after a later execute raised")
                elif use == "execute_string":
                    conn.execute_string("SELECT 1; SELECT 2")
                elif use == "commit":
                    conn.commit()
                elif use == "rollback":
                    conn.rollback()
                elif use == "write_pandas":
                    import pandas as pd

                    fakesnow.fakes.write_pandas(conn, pd.DataFrame({"K": [1], "V": ["x"]}), "T", database="DB1", schema="S1")
                elif use == "old-cursor.description":
                    old.description  # noqa: B018
                elif use == "cursor.executemany":
                    conn.cursor().executemany("INSERT INTO DB1.S1.T VALUES (%s, %s)", [(1, "a")])
                ctx.fail(f"C07|closed|not-rejected|{use}", "use of a closed connection succeeded")
            except snowflake.connector.errors.DatabaseError as e:
                if (e.errno, e.sqlstate) != (250002, "08003"):
                    ctx.fail(f"C07|closed|wrong-errno|{use}|got={e.errno}/{e.sqlstate}", str(e))
            except Exception as e:
                ctx.fail(f"C07|closed|wrong-exception|{use}|{etype_name(e)}", str(e))
        # the instance and other connections stay usable
        o = run(keep.cursor(), "SELECT count(*) FROM T")
        if not o.ok or o.rows != [(0,)]:
            ctx.fail("C07|closed|other-connection-disturbed", f"{o}")
    finally:
        close_instance(fs)


PROP = Prop(
    id="C07",
    facets=[
        Facet(
            name="failing_statements",
            strategy=_case,
            run=run_failure,
            rule=(
                "Hypothesis draws one failing statement out of 60 (incl. executemany batches and multi-variable SET) (cause x position: unknown table in FROM/JOIN/subquery/CTE/IN-subquery, as DML/"
                "MERGE/CTAS/CLONE/VIEW/DESCRIBE/ALTER/DROP/TRUNCATE/COMMENT/write_pandas target or source; unknown schema/database at each level; "
                "unknown column/function; already-existing table/view/schema/database; wrong number of values; no current database/schema; "
                "undefined $variable) x session state (open transaction with an uncommitted row or not, variables set, dict or tuple cursor) x "
                "1-4 follow-up statements on the same or a fresh cursor. Oracle: ProgrammingError with (errno, sqlstate) in the four Snowflake "
                "codes (exact where the repo pins it), cursor.sqlstate set then reset, engine-level snapshot / context / variables / open "
                "transaction unchanged, follow-ups equal to a twin that never saw the failure. Non-trivial: anything but a bare SELECT from "
                "a missing table outside a transaction."
            ),
            quick=160,
            thorough=2000,
            budget_quick=55,
        ),
        Facet(
            name="closed_connection",
            strategy=_closed_case,
            run=run_closed,
            rule="Every public use (execute on new/old cursor, executemany, execute_string, commit, rollback, write_pandas, description) after close(): DatabaseError 250002/08003; other connections unaffected.",
            quick=40,
            thorough=300,
            quick_shards=2,
            budget_quick=30,
        ),
    ],
    assumptions=[
        "only failures caused by what the statement refers to are generated (no syntax/conversion errors)",
        "for positions the repo does not pin, any of the four listed (errno, sqlstate) pairs is accepted",
    ],
)
