"""C11 — VARIANT/OBJECT/ARRAY values behave as JSON documents."""

from __future__ import annotations

import json
import re
from decimal import Decimal

import snowflake.connector.errors
from hypothesis import strategies as st

from vf.engine import Ctx, Facet, InvalidCase, Prop
from vf.model import sfref
from vf.util import close_instance, etype_name, new_instance, run, same_value, sql_lit, sql_str

SIMPLE_KEYS = ["a", "b", "k1", "A", "key"]
ODD_KEYS = ["x y", "a.b", "é", "0"]
_scalar = st.one_of(
    st.none(), st.booleans(), st.integers(-1000, 1000), st.sampled_from([0.5, -2.25, 1.5, 100.125]),
    st.sampled_from(["str", "", "Mixed Case", "  pad  ", "12", "it's", 'q"q', "a\\b", "é", "true"]),
)
_keys = st.one_of(st.sampled_from(SIMPLE_KEYS), st.sampled_from(SIMPLE_KEYS), st.sampled_from(ODD_KEYS))
_doc = st.recursive(_scalar, lambda c: st.one_of(st.lists(c, max_size=4), st.dictionaries(_keys, c, max_size=4)), max_leaves=10)
_container = st.one_of(st.dictionaries(_keys, _doc, min_size=1, max_size=4), st.lists(_doc, min_size=1, max_size=4))

MISSING = object()

CASTS = [None, None, "VARCHAR", "STRING", "TEXT", "INT", "NUMBER(10,2)", "FLOAT", "BOOLEAN"]
WRAPPERS = [None, None, None, "UPPER", "LOWER", "TRIM", "ARRAY_SIZE"]
SYNTAXES = ["colon", "bracket", "mixed", "get_path"]
SOURCES = ["literal", "column", "try_parse_json"]


CONTEXTS = ["select", "eq", "gt-and", "or", "not", "arith", "between", "in", "is-null", "case-when", "where", "not-direct", "and-direct", "where-direct"]
_sib = st.one_of(st.none(), st.booleans(), st.integers(-9, 9), st.sampled_from(["s", "", "x y"]), st.just([]), st.just({}))


@st.composite
def _path_case(draw, tier):
    """Construction, not rejection: the leaf kind is chosen first, then the path, then a document is built around it,
    then a cast / wrapper / context that is meaningful for that kind."""
    leaf_kind = draw(st.sampled_from(["int", "int", "float", "str", "str", "numeric-str", "bool", "bool", "list", "dict", "null", "missing"]))
    leaf = {
        "int": st.integers(-1000, 1000), "float": st.sampled_from([0.5, -2.25, 1.5, 100.125, 2.5, -2.5, 3.5, 2.4]),
        "str": st.sampled_from(["str", "", "Mixed Case", "  pad  ", "it's", 'q"q', "a\\b", "é", "true"]), "numeric-str": st.sampled_from(["12", "-7", "0", "4.5", "-0.5", "2.25"]),
        "bool": st.booleans(), "list": st.lists(_scalar, max_size=3), "dict": st.dictionaries(st.sampled_from(SIMPLE_KEYS), _scalar, max_size=3),
        "null": st.none(), "missing": st.none(),
    }[leaf_kind]
    leaf = draw(leaf)
    odd = draw(st.integers(0, 9)) == 0
    depth = draw(st.integers(1, 4))
    steps = []
    for _ in range(depth):
        if draw(st.integers(0, 2)) == 0:
            steps.append(["i", draw(st.integers(0, 2))])
        else:
            steps.append(["k", draw(st.sampled_from(ODD_KEYS if odd else SIMPLE_KEYS))])
    if steps[0][0] == "i" and draw(st.booleans()):
        steps[0] = ["k", draw(st.sampled_from(SIMPLE_KEYS))]
    node = leaf
    build = steps if leaf_kind != "missing" else steps[:-1]
    if leaf_kind == "missing":
        node = draw(st.sampled_from([{}, [], 1, "s", {"zz": 1}]))
        if steps[-1][0] == "k" and isinstance(node, dict) and steps[-1][1] in node:
            node = {}
        if steps[-1][0] == "i" and isinstance(node, list):
            node = []
    for kind, x in reversed(build):
        if kind == "k":
            d = {k: draw(_sib) for k in draw(st.lists(st.sampled_from(SIMPLE_KEYS), max_size=2, unique=True)) if k != x}
            d[x] = node
            node = d
        else:
            node = [draw(_sib) for _ in range(x)] + [node] + [draw(_sib) for _ in range(draw(st.integers(0, 1)))]
    doc = node
    if not isinstance(doc, (dict, list)):
        doc = {"a": doc}
        steps = [["k", "a"]] + steps
    if leaf_kind in ("int", "float"):
        cast = draw(st.sampled_from([None, None, "NUMBER(10,2)", "FLOAT", "VARCHAR", "INT"]))  # a fraction cast to INT rounds half away from zero
        wrapper = None
        context = draw(st.sampled_from(["select", "eq", "gt-and", "or", "not", "arith", "between", "in", "case-when", "where", "is-null"]))
    elif leaf_kind == "numeric-str":
        cast = draw(st.sampled_from(["INT", "NUMBER(10,2)", "VARCHAR", None]))
        wrapper = None
        context = draw(st.sampled_from(["select", "eq", "gt-and", "between", "arith", "where"]))
    elif leaf_kind == "str":
        cast = draw(st.sampled_from([None, "VARCHAR", "STRING", "TEXT"]))
        wrapper = draw(st.sampled_from([None, None, "UPPER", "LOWER", "TRIM"]))
        context = draw(st.sampled_from(["select", "eq", "or", "not", "in", "case-when", "where", "is-null"]))
    elif leaf_kind == "bool":
        cast = draw(st.sampled_from([None, None, "BOOLEAN", "VARCHAR"]))
        wrapper = None
        context = draw(st.sampled_from(["select", "eq", "not-direct", "and-direct", "where-direct", "is-null", "case-when"]))
    elif leaf_kind in ("list", "dict"):
        cast = draw(st.sampled_from([None, None, "VARCHAR"]))
        wrapper = draw(st.sampled_from([None, "ARRAY_SIZE", "ARRAY_SIZE"])) if cast is None else None
        context = draw(st.sampled_from(["select", "select", "is-null", "arith", "eq", "between"])) if wrapper else draw(st.sampled_from(["select", "is-null"]))
    else:
        cast = draw(st.sampled_from(CASTS))
        wrapper = draw(st.sampled_from([None, None, "UPPER", "ARRAY_SIZE"])) if cast in (None, "VARCHAR") else None
        if wrapper == "ARRAY_SIZE":
            cast = None
        context = draw(st.sampled_from(["select", "is-null"]))
    return {
        "doc": doc,
        "steps": steps,
        "syntax": draw(st.sampled_from(SYNTAXES)),
        "source": draw(st.sampled_from(SOURCES)),
        "cast": cast,
        "wrapper": wrapper,
        "context": context,
    }


def navigate(doc, steps):
    node = doc
    for kind, x in steps:
        if kind == "k":
            if isinstance(node, dict) and x in node:
                node = node[x]
            else:
                return MISSING
        else:
            if isinstance(node, list) and isinstance(x, int) and 0 <= x < len(node):
                node = node[x]
            else:
                return MISSING
    return node


_IDENT = re.compile(r"[A-Za-z_][A-Za-z0-9_]*\Z")


def _path_sql(base: str, steps, syntax: str) -> str | None:
    if syntax == "get_path":
        if not all(k == "i" or _IDENT.match(x) for k, x in steps) or steps[0][0] != "k":
            return None
        p = ""
        for k, x in steps:
            p += (("." if p else "") + x) if k == "k" else f"[{x}]"
        return f"GET_PATH({base}, {sql_str(p)})"
    out = base
    colon_open = False
    for n, (k, x) in enumerate(steps):
        if k == "i":
            out += f"[{x}]"
            continue
        use_colon = syntax == "colon" or (syntax == "mixed" and n == 0)
        if use_colon:
            if not _IDENT.match(x):
                return None
            out += ("." if colon_open else ":") + x
            colon_open = True
        else:
            out += f"[{sql_str(x)}]"
    return out


def _json_equal(text, member) -> bool:
    if not isinstance(text, str):
        return False
    try:
        v = json.loads(text)
    except ValueError:
        return False
    return v == member and type(v) is type(member) or (isinstance(member, (int, float)) and not isinstance(member, bool) and isinstance(v, (int, float)) and not isinstance(v, bool) and v == member)


def run_path(case, ctx: Ctx) -> None:
    doc, steps = case["doc"], case["steps"]
    syntax, source, cast, wrapper, context = case["syntax"], case["source"], case["cast"], case["wrapper"], case["context"]
    if not isinstance(doc, (dict, list)) or not steps or syntax not in SYNTAXES or source not in SOURCES or cast not in CASTS or wrapper not in WRAPPERS or context not in CONTEXTS:
        raise InvalidCase()
    if any(not (isinstance(s, list) and len(s) == 2 and s[0] in ("k", "i") and ((s[0] == "k" and isinstance(s[1], str) and s[1] != "") or (s[0] == "i" and isinstance(s[1], int) and s[1] >= 0))) for s in steps):
        raise InvalidCase()
    member = navigate(doc, steps)
    text = json.dumps(doc)
    base = "V" if source == "column" else (f"PARSE_JSON({sql_str(text)})" if source == "literal" else f"TRY_PARSE_JSON({sql_str(text)})")
    expr = _path_sql(base, steps, syntax)
    if expr is None:
        raise InvalidCase()
    path_expr = expr
    outcome = "missing" if member is MISSING else ("null-member" if member is None else ("empty-" if member in ([], {}) else "") + type(member).__name__)
    # what the (possibly cast / wrapped) expression denotes
    kind = "variant"
    val = member
    if wrapper == "ARRAY_SIZE":
        if cast is not None:
            raise InvalidCase()
        expr = f"ARRAY_SIZE({expr})"
        val = len(member) if isinstance(member, list) else None
        kind = "int"
    elif cast in ("VARCHAR", "STRING", "TEXT") or wrapper in ("UPPER", "LOWER", "TRIM"):
        if cast not in (None, "VARCHAR", "STRING", "TEXT"):
            raise InvalidCase()
        if cast is not None:
            expr = f"{expr}::{cast}"
        kind = "text"
        if member is MISSING or member is None:
            val = None
        elif isinstance(member, str):
            val = member
        else:
            val = ("json", member)
        if wrapper:
            expr = f"{wrapper}({expr})"
            if isinstance(val, str):
                val = {"UPPER": val.upper(), "LOWER": val.lower(), "TRIM": val.strip(" ")}[wrapper]
            elif val is not None:
                if isinstance(member, (dict, list)) or wrapper == "TRIM":
                    raise InvalidCase()  # text form of containers under case conversion is not pinned down
                val = ("json-text-cased", member)
    elif cast in ("INT", "NUMBER(10,2)", "FLOAT"):
        if member is MISSING or member is None:
            val = None
        elif isinstance(member, bool) or isinstance(member, (dict, list)):
            raise InvalidCase()
        elif isinstance(member, str):
            if not re.fullmatch(r"-?\d+(\.\d+)?", member):
                raise InvalidCase()  # non-numeric strings may reject
            val = int(member) if re.fullmatch(r"-?\d+", member) else Decimal(member)
        else:
            val = member
        expr = f"{expr}::{cast}"
        if val is not None:
            if cast == "INT":
                val, kind = int(sfref.to_decimal(val if not isinstance(val, float) else repr(val), 38, 0)), "int"  # half away from zero
            elif cast == "FLOAT":
                val, kind = float(val), "float"
            else:
                val, kind = sfref.to_decimal(val if not isinstance(val, float) else repr(val), 10, 2), "decimal"  # half away from zero
        else:
            kind = {"INT": "int", "FLOAT": "float"}.get(cast, "decimal")
    elif cast == "BOOLEAN":
        if member is MISSING or member is None:
            val = None
        elif not isinstance(member, bool):
            raise InvalidCase()
        expr = f"{expr}::BOOLEAN"
        kind = "bool"
    else:
        val = None if member is MISSING else member

    frm = " FROM J" if source == "column" else ""
    lit = None
    if kind in ("int", "float", "decimal") and val is not None:
        lit = format(val, "f") if isinstance(val, Decimal) else repr(val)
    elif kind == "text" and isinstance(val, str):
        lit = sql_str(val)
    elif kind == "bool" and val is not None:
        lit = "TRUE" if val else "FALSE"
    elif kind == "variant" and isinstance(val, (int, float)) and not isinstance(val, bool):
        lit = repr(val)  # a VARIANT number compared with a number literal (pinned by the repo's get_path_precedence test)
    numeric = kind in ("int", "float", "decimal") or (kind == "variant" and lit is not None)
    want = None
    if context == "select":
        sql, mode = f"SELECT {expr} AS R{frm}", "value"
    elif context == "is-null":
        sql, mode, want = f"SELECT ({expr}) IS NULL AS R{frm}", "bool", (val is None if kind != "variant" else member is MISSING)
        if kind == "variant" and member is None:
            raise InvalidCase()  # a JSON null member IS NULL is false in Snowflake but the property fixes only the ::varchar behaviour
    elif context in ("not-direct", "and-direct", "where-direct"):
        if not isinstance(member, bool) or cast not in (None, "BOOLEAN"):
            raise InvalidCase()
        if context == "not-direct":
            sql, mode, want = f"SELECT NOT {expr} AS R{frm}", "bool", not member
        elif context == "and-direct":
            sql, mode, want = f"SELECT {expr} AND 1 = 1 AS R{frm}", "bool", member
        else:
            sql, mode, want = f"SELECT COUNT(*) AS R FROM (SELECT 1 AS ONE{', V' if source == 'column' else ''}{frm}) Q WHERE {expr}", "number", 1 if member else 0
    elif lit is None:
        sql, mode, context = f"SELECT {expr} AS R{frm}", "value", "select"
    elif context == "eq":
        sql, mode, want = f"SELECT {expr} = {lit} AS R{frm}", "bool", True
    elif context == "or":
        sql, mode, want = f"SELECT 1 = 0 OR {expr} = {lit} AS R{frm}", "bool", True
    elif context == "not":
        sql, mode, want = f"SELECT NOT {expr} = {lit} AS R{frm}", "bool", False
    elif context == "in":
        sql, mode, want = f"SELECT {expr} IN ({lit}) AS R{frm}", "bool", True
    elif context == "case-when":
        sql, mode, want = f"SELECT CASE WHEN {expr} = {lit} THEN 'yes' ELSE 'no' END AS R{frm}", "text", "yes"
    elif context == "where":
        sql, mode, want = f"SELECT 'hit' AS R{frm or ''} WHERE {expr} = {lit}", "text", "hit"
    elif not numeric or kind == "variant" and context == "arith":
        sql, mode, context = f"SELECT {expr} AS R{frm}", "value", "select"
    elif context == "gt-and":
        sql, mode, want = f"SELECT {expr} > {lit} - 1 AND {expr} < {lit} + 1 AS R{frm}", "bool", True
    elif context == "between":
        sql, mode, want = f"SELECT {expr} BETWEEN {lit} - 1 AND {lit} + 1 AS R{frm}", "bool", True
    elif context == "arith":
        sql, mode, want = f"SELECT {expr} * 2 + 1 AS R{frm}", "number", val * 2 + 1
    else:
        raise InvalidCase()

    feature = (f"cast:{cast}" if cast else "bare") + (f"+{wrapper}" if wrapper else "")
    # shapes with listed findings get one coarse signature each, so the search continues in the clean space
    path_part = path_expr[len(base) :] if path_expr.startswith(base) else ""
    n_brackets = path_part.count("[")
    odd_key = any(k == "k" and not _IDENT.match(x) for k, x in steps)
    # (a string member converted by any cast needs its JSON quotes stripped first, like the text conversions)
    texty = cast in ("VARCHAR", "STRING", "TEXT") or wrapper in ("UPPER", "LOWER", "TRIM") or (cast is not None and isinstance(member, str))
    # (likewise a fraction cast to INT: through its text it rounds half away from zero, as a raw JSON number it does not)
    texty = texty or (cast == "INT" and isinstance(member, float) and member != int(member))
    shape = "odd-key" if odd_key else ("chained-brackets" if n_brackets >= 2 else ("bracket-last-step+text-conversion" if path_part.endswith("]") and texty else None))
    if shape:
        ctx.cls(f"known-shape:{shape}")

    def sig(what: str) -> str:
        if shape:
            return f"C11|path|shape={shape}|{what.split('|')[0]}"
        return f"C11|path|{feature}|{context}|{what}"

    ctx.cls(f"outcome:{outcome}", f"feature:{feature}", f"context:{context}", f"syntax:{syntax}", f"source:{source}")
    ctx.nontrivial = len(steps) >= 2 or outcome in ("missing", "null-member", "dict", "list", "empty-dict", "empty-list") or context != "select" or any(x in text for x in ("{}", "[]", "\\"))

    fs = new_instance()
    try:
        conn = fs.connect("db1", "s1")
        cur = conn.cursor()
        if source == "column":
            cur.execute("CREATE TABLE J (V VARIANT)")
            o = run(cur, f"INSERT INTO J SELECT PARSE_JSON({sql_str(text)})")
            if not o.ok:
                ctx.fail(f"C11|store-document|raises|{o.etype}", f"{text}: {o}")
                return
        o = run(cur, sql)
        odd = any(k == "k" and not _IDENT.match(x) for k, x in steps)
        where = f"{sql}   -- document {text}; member {('<missing>' if member is MISSING else json.dumps(member))}"
        if not o.ok:
            ctx.fail(sig(f"raises|{o.etype}|{outcome}{'|odd-key' if odd else ''}|syntax={syntax}"), f"{where}: {o}")
            return
        if len(o.rows) != 1 and not (context == "where" and not o.rows):
            ctx.fail(sig("wrong-shape"), f"{where}: {o.rows!r}")
            return
        got = o.rows[0][0] if o.rows else None
        tag = f"{outcome}{'|odd-key' if odd else ''}"
        if mode == "bool":
            if got is not want:
                ctx.fail(sig(f"wrong-truth-value|{tag}"), f"{where}: got {got!r}, want {want!r}")
        elif mode == "text":
            if got != want:
                ctx.fail(sig(f"wrong-value|{tag}"), f"{where}: got {got!r}, want {want!r}")
        elif mode == "number":
            if not (isinstance(got, (int, float, Decimal)) and not isinstance(got, bool) and Decimal(str(got)) == Decimal(str(want))):
                ctx.fail(sig(f"wrong-value|{tag}"), f"{where}: got {got!r}, want {want!r}")
        else:
            if kind == "variant":
                if member is MISSING:
                    ok = got is None
                elif member is None:
                    ok = got is None or got == "null"  # both accepted: the property fixes only the ::varchar behaviour
                else:
                    ok = _json_equal(got, member)
            elif kind == "text":
                if val is None:
                    ok = got is None
                elif isinstance(val, str):
                    ok = got == val
                elif val[0] == "json":
                    ok = _json_equal(got, val[1])
                else:
                    ok = isinstance(got, str) and _json_equal(got.lower(), val[1])
            elif kind == "decimal":
                ok = (got is None and val is None) or (isinstance(got, Decimal) and got == val)
            else:
                ok = same_value(got, val)
            if not ok:
                quoted = kind == "text" and isinstance(val, str) and got == json.dumps(val)
                ctx.fail(sig(f"{'keeps-json-quotes' if quoted else 'wrong-value'}|{tag}|syntax={syntax}"), f"{where}: got {got!r}, want {val if kind != 'variant' else member!r}")
    finally:
        close_instance(fs)


# ------------------------------------------------------------------------------------------ constructors


_cval = st.one_of(st.none(), st.integers(-5, 5), st.sampled_from(["v", "it's", ""]), st.booleans(), st.sampled_from([1.5]))


@st.composite
def _construct_case(draw, tier):
    return {
        "fn": draw(st.sampled_from(["OBJECT_CONSTRUCT", "OBJECT_CONSTRUCT", "OBJECT_CONSTRUCT_KEEP_NULL", "ARRAY_CONSTRUCT", "ARRAY_LITERAL", "OBJECT_LITERAL"])),
        "pairs": draw(st.lists(st.tuples(st.one_of(st.none(), st.sampled_from(["a", "b", "k1", "K", "x y"])), _cval).map(list), max_size=4, unique_by=lambda p: p[0])),
        "form": draw(st.sampled_from(["literal", "column", "expression"])),
        "use": draw(st.sampled_from(["select", "insert-variant", "path"])),
    }


def run_construct(case, ctx: Ctx) -> None:
    fn, pairs, form, use = case["fn"], case["pairs"], case["form"], case["use"]
    if fn not in ("OBJECT_CONSTRUCT", "OBJECT_CONSTRUCT_KEEP_NULL", "ARRAY_CONSTRUCT", "ARRAY_LITERAL", "OBJECT_LITERAL") or form not in ("literal", "column", "expression") or use not in ("select", "insert-variant", "path"):
        raise InvalidCase()
    if any(not (isinstance(p, list) and len(p) == 2 and (p[0] is None or isinstance(p[0], str))) for p in pairs):
        raise InvalidCase()
    cols = {}
    first = next((v for _, v in pairs if v is not None), None)
    null_type = "BOOLEAN" if isinstance(first, bool) else "INT" if isinstance(first, int) else "FLOAT" if isinstance(first, float) else "VARCHAR"

    def arg(v, typ=None):
        if form == "literal" or v is None and form == "expression":
            return sql_lit(v) if v is not None else "NULL"
        if form == "column":
            name = f"C{len(cols)}"
            cols[name] = sql_lit(v) if v is not None else f"NULL::{'VARCHAR' if typ == 'k' else null_type}"
            return name
        if isinstance(v, bool):
            return f"({sql_lit(v)} AND TRUE)"
        if isinstance(v, (int, float)):
            return f"({sql_lit(v)} + 0)"
        return f"({sql_lit(v)} || '')"

    is_obj = fn.startswith("OBJECT")
    if is_obj:
        if fn == "OBJECT_LITERAL":
            ps = [p for p in pairs if p[0] is not None]
            if form != "literal" or not ps:
                raise InvalidCase()
            expr = "{" + ", ".join(f"{sql_str(k)}: {sql_lit(v) if v is not None else 'NULL'}" for k, v in ps) + "}"
            want = {k: v for k, v in ps if v is not None}
        else:
            expr = f"{fn}(" + ", ".join(f"{arg(k, 'k') if k is not None else 'NULL'}, {arg(v)}" for k, v in pairs) + ")"
            if fn == "OBJECT_CONSTRUCT":
                want = {k: v for k, v in pairs if k is not None and v is not None}
            else:
                want = {k: v for k, v in pairs if k is not None}
    else:
        vals = [v for _, v in pairs]
        if fn == "ARRAY_LITERAL":
            expr = "[" + ", ".join(arg(v) for v in vals) + "]"
        else:
            expr = "ARRAY_CONSTRUCT(" + ", ".join(arg(v) for v in vals) + ")"
        want = vals
    frm = f" FROM (SELECT {', '.join(f'{lit} AS {n}' for n, lit in cols.items())}) T" if cols else ""
    has_null = any(v is None for _, v in pairs) or any(k is None for k, _ in pairs)
    ctx.cls(f"construct:{fn}", f"form:{form}", f"use:{use}", "has-null" if has_null else "no-null")
    ctx.nontrivial = has_null or form != "literal" or use != "select" or not pairs
    if is_obj:
        fam = "OBJECT_LITERAL" if fn == "OBJECT_LITERAL" else fn
        shape = "empty-result" if want == {} else ("nonliteral-arguments" if form != "literal" else "literal-arguments")
    else:
        fam = "ARRAY"
        kinds_ = {("num" if isinstance(v, (int, float)) and not isinstance(v, bool) else type(v).__name__) for v in want if v is not None}
        shape = ("heterogeneous" if len(kinds_) > 1 else "homogeneous") + ("+null" if any(v is None for v in want) else "")
    disc = f"{fam}|{shape}"
    fs = new_instance()
    try:
        cur = fs.connect("db1", "s1").cursor()
        if use == "select":
            sql = f"SELECT {expr} AS R{frm}"
        elif use == "insert-variant":
            cur.execute(f"CREATE TABLE OC (R {'OBJECT' if is_obj else 'ARRAY'})")
            o = run(cur, f"INSERT INTO OC SELECT {expr}{frm}")
            if not o.ok:
                ctx.fail(f"C11|construct|raises|{o.etype}|insert|{disc}", f"INSERT INTO OC SELECT {expr}{frm}: {o}")
                return
            sql = "SELECT R FROM OC"
        else:
            if is_obj:
                ks = [k for k in want if _IDENT.match(k)]
                if not ks:
                    raise InvalidCase()
                sql, want = f"SELECT ({expr}):{ks[0]} AS R{frm}", want[ks[0]]
            else:
                if not want:
                    raise InvalidCase()
                sql, want = f"SELECT ({expr})[0] AS R{frm}", want[0]
        o = run(cur, sql)
        if not o.ok:
            ctx.fail(f"C11|construct|raises|{o.etype}|{use}|{disc}", f"{sql}: {o}")
            return
        got = o.rows[0][0] if o.rows else "<no row>"
        if use == "path" and want is None:
            ok = got is None or got == "null"
        else:
            ok = _json_equal(got, want) if not isinstance(want, (dict, list)) else (isinstance(got, str) and _loads(got) == want)
        if not ok:
            why = "python-list-instead-of-json-text" if isinstance(got, list) else ("null-pairs-kept" if is_obj and isinstance(got, str) and isinstance(_loads(got), dict) and {k: v for k, v in _loads(got).items() if v is not None} == want and fn == "OBJECT_CONSTRUCT" else "wrong-value")
            ctx.fail(f"C11|construct|{why}|{use}|{disc}", f"{sql}: got {got!r}, want {want!r}")
    finally:
        close_instance(fs)


def _loads(s):
    try:
        return json.loads(s)
    except (ValueError, TypeError):
        return ("<not json>", s)


# ------------------------------------------------------------------------------------------ FLATTEN

_elem = st.one_of(st.integers(-9, 9), st.sampled_from(["s", "two words", "", 'q"']), st.none(), st.booleans(), st.dictionaries(st.sampled_from(["a", "b"]), st.one_of(st.integers(0, 9), st.sampled_from(["x", "y"])), max_size=2), st.lists(st.integers(0, 3), max_size=2))


@st.composite
def _flatten_case(draw, tier):
    return {
        "arr": draw(st.lists(_elem, max_size=6)),
        "source": draw(st.sampled_from(["literal", "column", "split", "path"])),
        "proj": draw(st.sampled_from(["value", "value::varchar", "value:a", "value:a::varchar", "value[0]"])),
        "alias": draw(st.sampled_from(["f", "flat", None])),
        "extra_rows": draw(st.integers(0, 2)),
        # where the flatten sits in the query: alone, behind another flatten, behind a flatten whose elements it flattens again,
        # or inside a CTE whose VALUE column is converted outside
        "shape": draw(st.sampled_from(["single", "single", "second-of-two", "chained", "in-cte"])),
    }


def run_flatten(case, ctx: Ctx) -> None:
    arr, source, proj, alias = case["arr"], case["source"], case["proj"], case["alias"]
    if not isinstance(arr, list) or source not in ("literal", "column", "split", "path") or proj not in ("value", "value::varchar", "value:a", "value:a::varchar", "value[0]"):
        raise InvalidCase()
    if source == "split":
        arr = [str(x) for x in arr if isinstance(x, (int, str)) and not isinstance(x, bool) and "," not in str(x)]
        if not arr:
            raise InvalidCase()
        inp = f"SPLIT({sql_str(','.join(arr))}, ',')"
        frm = ""
    elif source == "literal":
        inp, frm = f"PARSE_JSON({sql_str(json.dumps(arr))})", ""
    elif source == "column":
        inp, frm = "T.V", "T, "
    else:
        inp, frm = "T.V:items", "T, "
    a = alias or "f"
    p = proj.replace("value", f"{a}.value") if alias else proj
    fs = new_instance()
    try:
        cur = fs.connect("db1", "s1").cursor()
        if frm:
            cur.execute("CREATE TABLE T (ID INT, V VARIANT)")
            doc = arr if source == "column" else {"items": arr}
            cur.execute(f"INSERT INTO T SELECT 1, PARSE_JSON({sql_str(json.dumps(doc))})")
        shape = case.get("shape", "single")
        if shape not in ("single", "second-of-two", "chained", "in-cte"):
            raise InvalidCase()
        if shape != "single" and (not alias or proj not in ("value", "value::varchar")):
            shape = "single"
        ctx.cls(f"flatten-shape:{shape}")
        if shape == "single":
            sql = f"SELECT {p} AS R FROM {frm}LATERAL FLATTEN(input => {inp}){(' AS ' + alias) if alias else ''}"
        elif shape == "second-of-two":
            sql = f"SELECT {p} AS R FROM {frm}LATERAL FLATTEN(input => PARSE_JSON('[0]')) AS F0, LATERAL FLATTEN(input => {inp}) AS {alias}"
        elif shape == "chained":
            # the input becomes an array of one-element arrays; the second flatten opens them again
            if source == "split":
                shape, sql = "single", f"SELECT {p} AS R FROM LATERAL FLATTEN(input => {inp}) AS {alias}"
            else:
                nested = [[e] for e in arr]
                if frm:
                    doc2 = nested if source == "column" else {"items": nested}
                    cur.execute("DELETE FROM T")
                    cur.execute(f"INSERT INTO T SELECT 1, PARSE_JSON({sql_str(json.dumps(doc2))})")
                    inp2 = inp
                else:
                    inp2 = f"PARSE_JSON({sql_str(json.dumps(nested))})"
                sql = f"SELECT {p} AS R FROM {frm}LATERAL FLATTEN(input => {inp2}) AS F1, LATERAL FLATTEN(input => F1.value) AS {alias}"
        else:
            outer = proj.replace("value", "X.value")
            sql = f"WITH C AS (SELECT {alias}.value AS value FROM {frm}LATERAL FLATTEN(input => {inp}) AS {alias}) SELECT {outer} AS R FROM C AS X"

        def want_of(e):
            if proj == "value":
                return ("json", e)
            if proj == "value::varchar":
                return None if e is None else (e if isinstance(e, str) else ("json", e))
            if proj.startswith("value:a"):
                m = e.get("a", MISSING) if isinstance(e, dict) else MISSING
                if proj.endswith("::varchar"):
                    return None if m is MISSING or m is None else (m if isinstance(m, str) else ("json", m))
                return None if m is MISSING else ("json", m)
            m = e[0] if isinstance(e, list) and e else MISSING
            return None if m is MISSING else ("json", m)

        want = [want_of(e) for e in arr]
        case_arr = list(arr)
        kinds = sorted({type(e).__name__ for e in arr})
        ctx.cls(f"flatten:{source}", f"flatten-proj:{proj}", "flatten:empty" if not arr else "flatten:non-empty")
        ctx.nontrivial = len(arr) != 1 or proj != "value"
        disc = f"{source}|{proj}" + ("" if shape == "single" else f"|{shape}")
        o = run(cur, sql)
        if not o.ok:
            ctx.fail(f"C11|flatten|raises|{o.etype}|{disc}|elements={'+'.join(kinds) or 'none'}", f"{sql} over {json.dumps(arr)}: {o}")
            return
        got = [r[0] for r in o.rows]
        if len(got) != len(want):
            ctx.fail(f"C11|flatten|wrong-row-count|{disc}", f"{sql} over {json.dumps(arr)}: {len(got)} rows {got!r}, want {len(want)}")
            return
        if shape in ("in-cte", "chained"):
            # the row order of a CTE / of two joined flattens is not defined (and FLATTEN's INDEX column is not available to order by):
            # compare the multisets of canonical forms
            def canon_want(w):
                if w is None or (isinstance(w, tuple) and w[1] is None):
                    return "<null>"
                return "s:" + w if isinstance(w, str) else "j:" + json.dumps(w[1], sort_keys=True, separators=(",", ":"))

            def canon_got(g, w_is_text: bool):
                if g is None or g == "null":
                    return "<null>"
                if w_is_text:
                    return "s:" + str(g)
                try:
                    return "j:" + json.dumps(json.loads(g), sort_keys=True, separators=(",", ":"))
                except (ValueError, TypeError):
                    return "raw:" + repr(g)

            cw = sorted(canon_want(w) for w in want)
            texts = {w for w in want if isinstance(w, str)}
            cg = sorted(canon_got(g, proj == "value::varchar" and g in texts) for g in got)
            if cg != cw:
                quoted = any(isinstance(g, str) and g.startswith('"') and g[1:-1] in texts for g in got)
                ctx.fail(f"C11|flatten|{'keeps-json-quotes' if quoted else 'wrong-element'}|{disc}|multiset", f"{sql} over {json.dumps(arr)}: got {got!r}, want (in any order) {want!r}")
            return
        for g, w, e in zip(got, want, arr):
            if w is None:
                ok = g is None
            elif isinstance(w, tuple):
                ok = (g is None or g == "null") if w[1] is None else _json_equal(g, w[1])
            else:
                ok = g == w
            if not ok:
                quoted = isinstance(w, str) and g == json.dumps(w)
                ctx.fail(f"C11|flatten|{'keeps-json-quotes' if quoted else 'wrong-element'}|{disc}|element={type(e).__name__}", f"{sql} over {json.dumps(arr)}: element {e!r} -> {g!r}, want {w!r}; all {got!r}")
                return
    finally:
        close_instance(fs)


# ------------------------------------------------------------------------------------------ an index written on an array literal


@st.composite
def _literal_index_case(draw, tier):
    kind = draw(st.sampled_from(["int", "str", "bool", "float"]))
    elem = {"int": st.integers(-50, 50), "str": st.sampled_from(["p", "q", "", "it's", "Mixed"]), "bool": st.booleans(), "float": st.sampled_from([1.5, -2.25, 0.5])}[kind]
    elems = draw(st.lists(elem, max_size=5))  # one JSON kind per array (mixed kinds are a listed finding)
    return {"elems": elems, "form": draw(st.sampled_from(["ARRAY_CONSTRUCT", "bracket-literal"])), "idx": draw(st.integers(0, 6)), "cast": draw(st.sampled_from([None, None, "native"]))}


def run_literal_index(case, ctx: Ctx) -> None:
    elems, form, idx, cast = case["elems"], case["form"], case["idx"], case.get("cast")
    if not isinstance(elems, list) or form not in ("ARRAY_CONSTRUCT", "bracket-literal") or not isinstance(idx, int) or idx < 0 or len({type(e) for e in elems}) > 1 or cast not in (None, "native"):
        raise InvalidCase()
    if any(not isinstance(e, (bool, int, float, str)) for e in elems) or (form == "bracket-literal" and not elems):
        raise InvalidCase()
    lits = ", ".join(("TRUE" if e else "FALSE") if isinstance(e, bool) else (sql_str(e) if isinstance(e, str) else repr(e)) for e in elems)
    arr = f"ARRAY_CONSTRUCT({lits})" if form == "ARRAY_CONSTRUCT" else f"[{lits}]"
    expr = f"{arr}[{idx}]"
    want = elems[idx] if idx < len(elems) else MISSING
    native = None
    if cast == "native" and want is not MISSING and isinstance(want, (int, float)) and not isinstance(want, bool):
        native = "INT" if isinstance(want, int) else "FLOAT"
        expr += f"::{native}"
    fs = new_instance()
    try:
        cur = fs.connect("db1", "s1").cursor()
        sql = f"SELECT {expr} AS R"
        ctx.cls(f"literal-index:{form}", "literal-index:out-of-range" if want is MISSING else f"literal-index:position-{min(idx, 2)}")
        ctx.nontrivial = len(elems) >= 2
        o = run(cur, sql)
        if not o.ok:
            ctx.fail(f"C11|literal-index|raises|{o.etype}|{form}", f"{sql}: {o}")
            return
        got = o.rows[0][0]
        if want is MISSING:
            if got is not None:
                ctx.fail(f"C11|literal-index|out-of-range-not-null|{form}", f"{sql}: {got!r}")
        elif native:
            if got != want:
                ctx.fail(f"C11|literal-index|wrong-element|{form}|cast", f"{sql}: got {got!r}, element {idx} is {want!r}")
        elif not _json_equal(got, want):
            ctx.fail(f"C11|literal-index|wrong-element|{form}", f"{sql}: got {got!r}, element {idx} is {want!r}")
    finally:
        close_instance(fs)


def _selftest() -> None:
    d = {"a": {"b": [1, "x", None, {"c": True}]}, "k1": "str"}
    assert navigate(d, [["k", "a"], ["k", "b"], ["i", 1]]) == "x"
    assert navigate(d, [["k", "a"], ["k", "b"], ["i", 9]]) is MISSING
    assert navigate(d, [["k", "k1"], ["k", "z"]]) is MISSING
    assert navigate(d, [["k", "a"], ["k", "b"], ["i", 2]]) is None
    assert _path_sql("V", [["k", "a"], ["k", "b"], ["i", 0]], "colon") == "V:a.b[0]"
    assert _path_sql("V", [["k", "a"], ["i", 0], ["k", "c"]], "colon") == "V:a[0].c"
    assert _path_sql("V", [["k", "x y"], ["i", 0]], "bracket") == "V['x y'][0]"
    assert _path_sql("V", [["k", "a"], ["k", "b"]], "get_path") == "GET_PATH(V, 'a.b')"
    assert _path_sql("V", [["k", "x y"]], "colon") is None
    assert _json_equal('{"a": 1}', {"a": 1}) and not _json_equal('"1"', 1) and _json_equal("1.0", 1)


PROP = Prop(
    id="C11",
    selftest=_selftest,
    facets=[
        Facet(
            name="path_access",
            strategy=_path_case,
            run=run_path,
            rule=(
                "Hypothesis draws a JSON document (recursive: objects/arrays incl. empty, strings needing escapes, numbers, booleans, nulls; keys "
                "simple, mixed-case, with spaces/dots/unicode), a path generated against it (present / missing key / out-of-range index / step "
                "into the wrong kind), access syntax (v:a.b[0], v['a'][0], mixed, GET_PATH), source (PARSE_JSON literal, TRY_PARSE_JSON, "
                "VARIANT table column), cast target (none, VARCHAR/STRING/TEXT, INT, NUMBER(10,2), FLOAT, BOOLEAN), wrapper (UPPER, LOWER, TRIM, "
                "ARRAY_SIZE) and context (select list, = literal, > AND <, OR, NOT, arithmetic, BETWEEN, IN, IS NULL, CASE WHEN, WHERE). "
                "Oracle: navigate the same document in Python. Non-trivial: depth>=2, outcome other than a present scalar, context other "
                "than the select list, or a document with an empty container / escaped string."
            ),
            quick=1300,
            thorough=8000,
            budget_quick=45,
        ),
        Facet(
            name="constructors",
            strategy=_construct_case,
            run=run_construct,
            rule="OBJECT_CONSTRUCT[_KEEP_NULL], {..} literals, ARRAY_CONSTRUCT and [..] literals over 0-4 generated pairs (NULL keys/values, literal / column / expression arguments), selected, stored into OBJECT/ARRAY columns, or navigated; oracle: Python dict/list (NULL-valued pairs dropped unless KEEP_NULL).",
            quick=500,
            thorough=3000,
            quick_shards=4,
            budget_quick=40,
        ),
        Facet(
            name="flatten",
            strategy=_flatten_case,
            run=run_flatten,
            rule="LATERAL FLATTEN(input => array) over a PARSE_JSON literal, a VARIANT column, a path into a column, or SPLIT(..), projecting value, value::varchar, value:a, value:a::varchar, value[0], with/without alias; arrays of 0-6 elements of every kind; oracle: one row per element in order (single input row).",
            quick=500,
            thorough=3000,
            quick_shards=4,
            budget_quick=40,
        ),
        Facet(
            name="literal_index",
            strategy=_literal_index_case,
            run=run_literal_index,
            rule="An index written directly on ARRAY_CONSTRUCT(...) or on a [..] literal of 0-5 same-kind scalars (ints, strings, booleans, fractions), position 0-6, optionally cast to the element's native type: the JSON element at that 0-based position, NULL beyond the end.",
            quick=60,
            thorough=600,
            quick_shards=2,
            budget_quick=30,
        ),
    ],
    assumptions=[
        "a JSON null member may surface as SQL NULL or the text null on bare extraction (the property fixes only the ::varchar behaviour)",
        "JSON text is compared parsed (whitespace/key order are not asserted)",
        "numeric casts are asserted for numbers and integer-looking strings only; casts of other kinds may reject",
    ],
)
