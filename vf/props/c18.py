"""C18 — with db_path, committed state survives exit, exceptions and kills (fault enumeration over generated histories)."""

from __future__ import annotations

import json
import os
import shutil
import signal
import sys
import tempfile
import traceback

from hypothesis import strategies as st

from vf.engine import Ctx, Facet, InvalidCase, Prop

STATEMENTS = [
    ("create-table-comment", "CREATE TABLE IF NOT EXISTS T1 (I INT, V VARCHAR(10)) COMMENT = 'first'"),
    ("create-table-plain", "CREATE TABLE IF NOT EXISTS T2 (K INT, W VARCHAR)"),
    ("create-or-replace-lengths", "CREATE OR REPLACE TABLE T3 (A VARCHAR(5), B VARCHAR(7))"),
    ("insert", "INSERT INTO T1 VALUES ({n}, 'v{n}')"),
    ("insert-t2", "INSERT INTO T2 VALUES ({n}, 'w')"),
    ("update", "UPDATE T1 SET V = 'upd' WHERE I >= 0"),
    ("delete", "DELETE FROM T1 WHERE I = {n}"),
    ("alter-add", "ALTER TABLE T2 ADD COLUMN X{n} VARCHAR(3)"),
    ("comment-on", "COMMENT ON TABLE T1 IS 'changed {n}'"),
    ("create-view", "CREATE OR REPLACE VIEW V1 AS SELECT I FROM T1"),
    ("create-schema", "CREATE SCHEMA IF NOT EXISTS S2"),
    ("create-table-other-schema", "CREATE TABLE IF NOT EXISTS S2.T4 (Z INT) COMMENT = 'in s2'"),
    ("create-database", "CREATE DATABASE IF NOT EXISTS DB2"),
    ("create-table-other-database", "CREATE TABLE IF NOT EXISTS DB2.MAIN.T5 (Q INT)"),
    ("begin", "BEGIN"),
    ("commit", "COMMIT"),
    ("rollback", "ROLLBACK"),
    ("merge", "MERGE INTO T2 USING T1 ON T2.K = T1.I WHEN MATCHED THEN UPDATE SET W = T1.V WHEN NOT MATCHED THEN INSERT (K, W) VALUES (T1.I, T1.V)"),
    ("ctas", "CREATE OR REPLACE TABLE T6 AS SELECT I, V FROM T1"),
    ("drop", "DROP TABLE IF EXISTS T3"),
    # appended later (indices above are referred to by committed replay cases)
    ("create-table-other-database-comment", "CREATE TABLE IF NOT EXISTS DB2.S3.T7 (Q VARCHAR(9)) COMMENT = 'in db2'"),
    ("comment-on-other-database", "COMMENT ON TABLE DB2.S3.T7 IS 'seven {n}'"),
    ("create-schema-other-database", "CREATE SCHEMA IF NOT EXISTS DB2.S3"),
    ("create-transient", "CREATE TRANSIENT TABLE IF NOT EXISTS T8 (I INT)"),
    ("insert-t8", "INSERT INTO T8 VALUES ({n})"),
    # statements that carry Snowflake-side metadata and always fail (the work after them is committed like any other)
    ("failing-create-with-metadata", "CREATE TABLE NO_SUCH_SCHEMA.TX (V VARCHAR(4)) COMMENT = 'never'"),
    ("failing-alter-with-lengths", "ALTER TABLE NO_SUCH_TABLE ADD COLUMN C VARCHAR(3)"),
]
# tables a user must find again once the statement creating them has succeeded (DROP only ever removes T3)
CREATES = {
    "create-table-comment": ("DB1", "S1", "T1"), "create-table-plain": ("DB1", "S1", "T2"), "create-or-replace-lengths": ("DB1", "S1", "T3"),
    "create-table-other-schema": ("DB1", "S2", "T4"), "ctas": ("DB1", "S1", "T6"), "create-table-other-database-comment": ("DB2", "S3", "T7"),
    "create-transient": ("DB1", "S1", "T8"),
}
MULTI_STEP = {"create-table-comment", "create-or-replace-lengths", "alter-add", "comment-on", "create-table-other-schema", "merge", "create-database", "create-table-other-database-comment", "comment-on-other-database"}
SPELLINGS = {"upper": str.upper, "lower": str.lower, "mixed": str.capitalize}


def _spell(case, which: int):
    sp = case.get("spell") or ["upper", "upper"]
    if not isinstance(sp, list) or len(sp) != 2 or any(x not in SPELLINGS for x in sp):
        raise InvalidCase()
    return sp[which]


def _metadata_model(history, snaps):
    """What a user must find recorded for the tables of the history, after each statement: [{(db, schema, table): comment}], and
    declared VARCHAR lengths likewise.  Derived from the statements' text and from which tables existed (reference snapshots), and only
    where that is unambiguous: a table whose comment went through CREATE TABLE IF NOT EXISTS on an existing table, or COMMENT ON a missing
    table (listed C09/C07 findings), is marked None = not asserted from then on."""
    UNK = "<not-asserted>"
    comments: dict = {}
    out = [dict(comments)]
    for j, si in enumerate(history):
        lab = STATEMENTS[si][0]
        before = {(t[0], t[1].upper(), t[2]) for t in snaps[j]["tables"]}
        after = {(t[0], t[1].upper(), t[2]) for t in snaps[j + 1]["tables"]}

        def created(key, text):
            if key in before:
                comments[key] = UNK  # IF NOT EXISTS on an existing table: listed finding (comment overwritten)
            elif key in after and comments.get(key) != UNK:
                comments[key] = text

        if lab == "create-table-comment":
            created(("DB1", "S1", "T1"), "first")
        elif lab == "create-table-other-schema":
            created(("DB1", "S2", "T4"), "in s2")
        elif lab == "create-table-other-database-comment":
            created(("DB2", "S3", "T7"), "in db2")
        elif lab == "comment-on":
            key = ("DB1", "S1", "T1")
            if key in before and comments.get(key) != UNK:
                comments[key] = f"changed {j}"
            elif key not in before:
                comments[key] = UNK  # comment on a missing table is recorded (listed C07 finding) and re-attaches later
        elif lab == "comment-on-other-database":
            key = ("DB2", "S3", "T7")
            if key in before and comments.get(key) != UNK:
                comments[key] = f"seven {j}"
            elif key not in before:
                comments[key] = UNK
        out.append(dict(comments))
    return out


DECLARED_LENGTHS = {("DB1", "S1", "T1", "V"): 10, ("DB1", "S1", "T3", "A"): 5, ("DB1", "S1", "T3", "B"): 7, ("DB2", "S3", "T7", "Q"): 9}
END_MODES = ["clean-exit", "body-raises", "kill-before", "kill-after"]


DML = {"insert", "insert-t2", "insert-t8", "update", "delete", "merge", "commit", "rollback"}
LABEL_IDX = {lab: i for i, (lab, _) in enumerate(STATEMENTS)}


def _ends_committed(hist) -> bool:
    open_ = False
    for i in hist:
        lab = STATEMENTS[i][0]
        if lab == "begin":
            open_ = True
        elif lab in ("commit", "rollback"):
            open_ = False
    return not open_


def _valid_history(hist) -> bool:
    """DDL inside an open transaction is excluded: Snowflake auto-commits around DDL, the engine does not (not this property's subject)."""
    open_ = False
    for i in hist:
        lab = STATEMENTS[i][0]
        if lab == "begin":
            if open_:
                return False
            open_ = True
        elif lab in ("commit", "rollback"):
            open_ = False
        elif open_ and lab not in DML:
            return False
    return True


@st.composite
def _case(draw, tier):
    n = draw(st.integers(2, 10))
    hist, open_ = [], False
    if draw(st.integers(0, 2)) == 0:
        # objects with recorded metadata in a database that is not the session's current one need their containers first
        hist = [LABEL_IDX[x] for x in ("create-database", "create-schema-other-database", "create-table-other-database-comment")]
        n = max(2, n - 3)
    for _ in range(n):
        if open_:
            lab = draw(st.sampled_from(["insert", "insert-t2", "update", "delete", "merge", "commit", "commit", "rollback"]))
        else:
            lab = draw(st.sampled_from([lab_ for lab_, _ in STATEMENTS] + ["failing-create-with-metadata", "failing-alter-with-lengths"]))
        if lab == "begin":
            open_ = True
        elif lab in ("commit", "rollback"):
            open_ = False
        hist.append(LABEL_IDX[lab])
    close_conn = draw(st.sampled_from([False, False, True]))
    if close_conn and not open_:
        # the connection is closed with a transaction still open: its work was never committed
        hist += [LABEL_IDX["begin"], LABEL_IDX[draw(st.sampled_from(["insert", "insert-t2", "update"]))]]
    npoints = 8 if tier == "quick" else 40
    return {
        "close_conn": close_conn,
        "history": hist,
        "points": draw(st.lists(st.tuples(st.sampled_from(["kill-before", "kill-after"]), st.integers(0, 200)).map(list), min_size=2, max_size=npoints)),
        "exit": draw(st.sampled_from(["clean-exit", "body-raises"])),
        "reconnect": draw(st.sampled_from(["same-options", "auto-create-off", "other-database-first"])),
        # how the database name is written by the first process' connect() and by the later one (names are case-insensitive)
        "spell": [draw(st.sampled_from(["upper", "upper", "lower", "mixed"])), draw(st.sampled_from(["upper", "upper", "lower", "mixed"]))],
    }


# ------------------------------------------------------------------ children (forked; they never return)


def _snapshot_all(fs) -> dict:
    from vf.util import snapshot

    s = snapshot(fs)
    drop = lambda key: key[0] in ("memory", "_fs_global")  # noqa: E731
    out = {
        "schemas": sorted(x for x in s["schemas"] if not drop(x) and x[1] not in ("pg_catalog",)),
        "tables": sorted(x for x in s["tables"] if not drop(x) and x[1] != "information_schema"),
        "columns": sorted(x for x in s["columns"] if not drop(x)),
        "rows": {k: v for k, v in s["rows"].items() if not k.startswith(("memory.", "_fs_global."))},
    }
    return json.loads(json.dumps(out, default=str))


def _child_history(dbdir: str, history: list[int], mode: str, point: int, out_path: str, spell: str = "upper", close_conn: bool = False) -> None:
    """Runs the history under fakesnow.patch(db_path); mode: reference | clean-exit | body-raises | kill-before | kill-after."""
    import snowflake.connector

    import fakesnow
    from vf import instr

    count = {"n": 0}
    per_stmt: list[int] = []
    oks: list[bool] = []

    def hook(event: str, sql) -> None:
        if event == "execute":
            count["n"] += 1
            if mode == "kill-before" and count["n"] == point:
                os.kill(os.getpid(), signal.SIGKILL)
        elif event == "executed" and mode == "kill-after" and count["n"] == point:
            os.kill(os.getpid(), signal.SIGKILL)

    class Boom(Exception):
        pass

    snaps = []
    try:
        with instr.installed(hook):
            with fakesnow.patch(db_path=dbdir):
                fs = snowflake.connector.connect.side_effect.__self__
                conn = snowflake.connector.connect(database=SPELLINGS[spell]("DB1"), schema=SPELLINGS[spell]("S1"))
                per_stmt.append(count["n"])
                if mode == "reference":
                    mark = count["n"]
                    snaps.append(_snapshot_all(fs))
                    count["n"] = mark  # the snapshots' own engine calls do not count
                cur = conn.cursor()
                for k, si in enumerate(history):
                    sql = STATEMENTS[si][1].replace("{n}", str(k))
                    try:
                        cur.execute(sql)
                        oks.append(True)
                    except Exception as e:  # failing statements are part of a history; the reference run fails the same way
                        if "Connection" in type(e).__name__:
                            raise
                        oks.append(False)
                    per_stmt.append(count["n"])
                    if mode == "reference":
                        mark = count["n"]
                        snaps.append(_snapshot_all(fs))
                        count["n"] = mark  # the snapshots' own engine calls do not count
                if close_conn and mode in ("clean-exit", "body-raises"):
                    conn.close()  # (an open transaction is dropped, not committed)
                if mode == "body-raises":
                    raise Boom()
    except Boom:
        pass
    reopened = None
    if mode in ("clean-exit", "body-raises"):
        # a later patch() in the SAME process with the same path must find the committed state too
        try:
            with fakesnow.patch(db_path=dbdir):
                fs2 = snowflake.connector.connect.side_effect.__self__
                for d in sorted(_present(dbdir, ["DB1", "DB2"])):
                    snowflake.connector.connect(database=d)
                reopened = {"snap": _snapshot_all(fs2)}
        except Exception as e:
            reopened = {"error": f"{type(e).__module__}.{type(e).__name__}: {str(e)[:300]}"}
    with open(out_path, "w") as f:
        json.dump({"snaps": snaps, "calls_after_stmt": per_stmt, "reopened": reopened, "ok": oks}, f)


def _present(dbdir: str, dbs: list[str]) -> set[str]:
    """Databases that have a file under the path (whatever the letter case of the file name: names are case-insensitive)."""
    have = {f[:-3].upper() for f in os.listdir(dbdir) if f.endswith(".db")}
    return {d for d in dbs if d in have}


def _child_verify(dbdir: str, dbs: list[str], reconnect: str, out_path: str, spell: str = "upper") -> None:
    import snowflake.connector

    import fakesnow

    kw = {"create_database_on_connect": True, "create_schema_on_connect": False} if reconnect == "auto-create-off" else {}
    present = _present(dbdir, dbs)
    # 1. what a user finds who connects to ONE database only (a later process need not open the others)
    user: dict = {}
    for d in sorted(present):
        with fakesnow.patch(db_path=dbdir, **kw):
            cur = snowflake.connector.connect(database=SPELLINGS[spell](d)).cursor()
            try:
                cur.execute(f"SELECT table_schema, table_name, comment FROM information_schema.tables WHERE table_catalog = '{d}' AND table_schema <> 'information_schema'")
                comments = [list(r) for r in cur.fetchall()]
                cur.execute(f"SELECT table_schema, table_name, column_name, character_maximum_length FROM information_schema.columns WHERE table_catalog = '{d}' AND table_schema <> 'information_schema'")
                lengths = [list(r) for r in cur.fetchall()]
                user[d] = {"comments": comments, "lengths": lengths}
            except Exception as e:
                user[d] = {"error": f"{type(e).__module__}.{type(e).__name__}: {str(e)[:300]}"}
    # 2. the engine-level state with every database of the path attached
    with fakesnow.patch(db_path=dbdir, **kw):
        fs = snowflake.connector.connect.side_effect.__self__
        order = list(reversed(dbs)) if reconnect == "other-database-first" else dbs
        for d in order:
            if d in present:
                snowflake.connector.connect(database=SPELLINGS[spell](d))
        snap = _snapshot_all(fs)
    # 3. (after the snapshot) the later process can go on working in each database: new objects get their metadata recorded
    for d in sorted(present):
        if "error" in user.get(d, {}):
            continue
        try:
            with fakesnow.patch(db_path=dbdir, **kw):
                cur = snowflake.connector.connect(database=SPELLINGS[spell](d)).cursor()
                cur.execute("CREATE SCHEMA IF NOT EXISTS VF_LATER")
                cur.execute("CREATE TABLE VF_LATER.NOTES (V VARCHAR(6)) COMMENT = 'later'")
                cur.execute(f"SELECT comment FROM information_schema.tables WHERE table_catalog = '{d}' AND table_schema = 'VF_LATER' AND table_name = 'NOTES'")
                c_ = cur.fetchall()
                cur.execute(f"SELECT character_maximum_length FROM information_schema.columns WHERE table_catalog = '{d}' AND table_schema = 'VF_LATER' AND table_name = 'NOTES'")
                l_ = cur.fetchall()
                cur.execute("SELECT EQUAL_NULL(1, 1), EQUAL_NULL(NULL, NULL), EQUAL_NULL(1, NULL)")  # (needs what connect installs in the database)
                q_ = cur.fetchall()
                if [tuple(r) for r in c_] != [("later",)] or [tuple(r) for r in l_] != [(6,)] or [tuple(r) for r in q_] != [(True, True, False)]:
                    user[d]["later_error"] = f"recorded comment {c_!r} / length {l_!r} / EQUAL_NULL {q_!r}"
        except Exception as e:
            user[d]["later_error"] = f"{type(e).__module__}.{type(e).__name__}: {str(e)[:300]}"
    with open(out_path, "w") as f:
        json.dump({"snap": snap, "user": json.loads(json.dumps(user, default=str))}, f)


def _fork(fn, *args) -> tuple[int, str]:
    """Run fn(*args) in a forked child. -> (exit status / -signal, stderr text)"""
    errf = next(a for a in reversed(args) if isinstance(a, str) and a.endswith(".json")) + ".err"
    pid = os.fork()
    if pid == 0:
        try:
            devnull = os.open(os.devnull, os.O_WRONLY)
            os.dup2(devnull, 1)
            fn(*args)
            os._exit(0)
        except BaseException:  # noqa: BLE001
            with open(errf, "w") as f:
                traceback.print_exc(file=f)
            os._exit(3)
    _, status = os.waitpid(pid, 0)
    err = open(errf).read() if os.path.exists(errf) else ""
    if os.WIFSIGNALED(status):
        return -os.WTERMSIG(status), err
    return os.WEXITSTATUS(status), err


def _norm(snap: dict, only_dbs: set[str]) -> str:
    """Comparable form restricted to the databases whose files the verifier could attach."""
    keep = lambda k: k[0] in only_dbs  # noqa: E731
    return json.dumps(
        {
            "schemas": [x for x in snap["schemas"] if keep(x)],
            "tables": [x for x in snap["tables"] if keep(x)],
            "columns": [x for x in snap["columns"] if keep(x)],
            "rows": {k: v for k, v in snap["rows"].items() if k.split(".")[0] in only_dbs},
        },
        sort_keys=True,
    )


def run_durability(case, ctx: Ctx) -> None:
    history = case["history"]
    if not history or any(not isinstance(i, int) or not 0 <= i < len(STATEMENTS) for i in history) or case["exit"] not in ("clean-exit", "body-raises") or case["reconnect"] not in ("same-options", "auto-create-off", "other-database-first"):
        raise InvalidCase()
    if not _valid_history(history):
        raise InvalidCase()
    root = tempfile.mkdtemp(prefix="vf-c18-")
    try:
        def fresh(name: str) -> str:
            d = os.path.join(root, name)
            os.mkdir(d)
            return d

        # 1. reference run: committed state after every statement, and how many engine calls each statement took
        refdir = fresh("ref")
        out = os.path.join(root, "ref.json")
        sp_first, sp_verify = _spell(case, 0), _spell(case, 1)
        st_, err = _fork(_child_history, refdir, history, "reference", 0, out, sp_first)
        if st_ != 0:
            raise RuntimeError(f"reference child failed ({st_}): {err[-1500:]}")
        ref = json.load(open(out))
        snaps, calls = ref["snaps"], ref["calls_after_stmt"]
        ref_ok = ref.get("ok") or [True] * len(history)
        total = calls[-1]
        dbs = ["DB1", "DB2"]
        labels = [STATEMENTS[i][0] for i in history]
        meta = _metadata_model(history, snaps)
        ctx.cls(f"spelling:{'same' if sp_first == sp_verify else 'different'}")
        user_view: dict = {}

        def verify(dbdir: str, tag: str):
            vout = os.path.join(root, f"v-{tag}.json")
            s2, e2 = _fork(_child_verify, dbdir, dbs, case["reconnect"], vout, sp_verify)
            if s2 != 0:
                return None, f"verifier exit {s2}: {e2[-800:]}"
            res = json.load(open(vout))
            user_view[tag] = res.get("user") or {}
            return res["snap"], ""

        def present(dbdir: str) -> set[str]:
            return _present(dbdir, dbs)

        def metadata_problem(tag: str, committed: dict, states: list[int]) -> str:
            """'' if what a single-database reader found equals the model after one of the given statement indices."""
            uv = user_view.get(tag) or {}
            for d, res in sorted(uv.items()):
                if "error" in res:
                    return f"reading information_schema of {d} failed: {res['error']}"
                if res.get("later_error"):
                    return f"a later process that connects to {d} cannot create a table with recorded metadata there: {res['later_error']}"
            problems = []
            for jx in states:
                bad = []
                # every table whose CREATE succeeded (and that was not dropped since) is listed for a reader of its database
                exp_tables = set()
                for j2 in range(jx):
                    lab2 = labels[j2]
                    if lab2 in CREATES and ref_ok[j2]:
                        exp_tables.add(CREATES[lab2])
                    elif lab2 == "drop" and ref_ok[j2]:
                        exp_tables.discard(("DB1", "S1", "T3"))
                    elif lab2 == "rollback" or lab2 == "commit":
                        pass
                for key in sorted(exp_tables):
                    if key[0] in uv and not any((r[0].upper(), r[1]) == key[1:] for r in uv[key[0]]["comments"]):
                        bad.append(f"table {'.'.join(key)} was created successfully but is not found")
                tables_then = {(t[0], t[1].upper(), t[2]) for t in snaps[jx]["tables"]}
                for key, want in meta[jx].items():
                    if want == "<not-asserted>" or key not in tables_then or key[0] not in uv:
                        continue
                    got = [r[2] for r in uv[key[0]]["comments"] if (r[0].upper(), r[1]) == key[1:]]
                    if got != [want]:
                        bad.append(f"comment of {'.'.join(key)}: found {got}, committed {want!r}")
                for (db_, sch, tab, col), n_ in DECLARED_LENGTHS.items():
                    if (db_, sch, tab) not in tables_then or db_ not in uv:
                        continue
                    got = [r[3] for r in uv[db_]["lengths"] if (r[0].upper(), r[1], r[2]) == (sch, tab, col)]
                    if got and got != [n_]:
                        bad.append(f"length of {db_}.{sch}.{tab}.{col}: found {got}, declared {n_}")
                if not bad:
                    return ""
                problems.append(f"vs state after statement {jx}: " + "; ".join(bad[:4]))
            return " | ".join(problems)

        # 2. clean exit / exception in the body: everything committed is there, nothing else
        edir = fresh("exit")
        st_, err = _fork(_child_history, edir, history, case["exit"], 0, os.path.join(root, "exit.json"), sp_first, bool(case.get("close_conn")))
        if case.get("close_conn"):
            ctx.cls("connection-closed-before-exit" + ("-with-open-transaction" if not _ends_committed(history) else ""))
        ctx.cls(f"end:{case['exit']}", f"reconnect:{case['reconnect']}")
        if st_ != 0:
            ctx.fail(f"C18|{case['exit']}|first-process-failed", f"history {labels}: exit {st_}: {err[-600:]}")
        else:
            re_ = json.load(open(os.path.join(root, "exit.json"))).get("reopened") or {}
            if "error" in re_:
                ctx.fail(f"C18|{case['exit']}|same-process-reopen-fails", f"history {labels}: a second patch(db_path) in the same process: {re_['error']}")
            elif "snap" in re_ and _norm(re_["snap"], present(edir)) != _norm(snaps[-1], present(edir)):
                ctx.fail(f"C18|{case['exit']}|same-process-reopen-state-differs", f"history {labels}: {_diff(snaps[-1], re_['snap'])}")
            got, verr = verify(edir, "exit")
            if got is None:
                ctx.fail(f"C18|{case['exit']}|verifier-cannot-start", f"history {labels}: {verr}")
            elif _norm(got, present(edir)) != _norm(snaps[-1], present(edir)):
                ctx.fail(f"C18|{case['exit']}|state-differs-from-committed", f"history {labels} (connect spelled {sp_first} then {sp_verify}): {_diff(snaps[-1], got)}")
            elif mp := metadata_problem("exit", snaps[-1], [len(history)]):
                ctx.fail(f"C18|{case['exit']}|metadata-not-found-by-single-database-reader", f"history {labels}: {mp}")
            if present(edir) != {d for d in dbs if any(x[0] == d for x in snaps[-1]["schemas"])}:
                ctx.fail(f"C18|{case['exit']}|database-files", f"files for {sorted(present(edir))}, committed databases {sorted({x[0] for x in snaps[-1]['schemas']})}")
        # 3. kills at engine-call boundaries
        seen = set()
        for mode, p in case["points"]:
            if mode not in ("kill-before", "kill-after") or not isinstance(p, int) or p < 0:
                raise InvalidCase()
            point = 1 + p % total
            if (mode, point) in seen:
                continue
            seen.add((mode, point))
            # which statement (0 = connect, j = j-th statement) does the point fall into?
            j = next(i for i, c in enumerate(calls) if point <= c)
            first_call_of_j = (calls[j - 1] if j > 0 else 0) + 1
            last_call_of_j = calls[j]
            kdir = fresh(f"k{len(seen)}")
            st_, err = _fork(_child_history, kdir, history, mode, point, os.path.join(root, f"k{len(seen)}.json"), sp_first)
            if st_ != -signal.SIGKILL:
                raise RuntimeError(f"crash child was not killed (status {st_}) at {mode} {point}/{total}: {err[-800:]}")
            label = "connect" if j == 0 else labels[j - 1]
            inside = not ((mode == "kill-before" and point == first_call_of_j) or (mode == "kill-after" and point == last_call_of_j))
            ctx.cls(f"crash-in:{label}", "crash-inside-multi-step-statement" if inside else "crash-at-statement-boundary")
            if inside or (j > 0 and labels[j - 1] == "commit"):
                ctx.nontrivial = True
            got, verr = verify(kdir, f"k{len(seen)}")
            if got is None:
                ctx.fail(f"C18|kill|verifier-cannot-start|{label}", f"history {labels}, {mode} engine call {point}/{total} (in {label}): {verr}")
                continue
            if j == 0:
                # connect's bootstrap is not a statement: nothing of the user's exists yet; the verifier having started is all that is required
                if got["tables"]:
                    ctx.fail("C18|kill|objects-from-nowhere|connect", f"{got['tables']}")
                continue
            elif mode == "kill-before" and point == first_call_of_j:
                allowed_idx = [j - 1]
            elif mode == "kill-after" and point == last_call_of_j:
                allowed_idx = [j]
            else:
                allowed_idx = [j - 1, j]
            allowed = [snaps[x] for x in allowed_idx]
            have = present(kdir)
            if any(_norm(got, have) == _norm(a, have) for a in allowed) and (mp := metadata_problem(f"k{len(seen)}", {}, allowed_idx)):
                ctx.fail(f"C18|kill|{'torn-state' if inside else 'metadata-not-found-by-single-database-reader'}|{label}", f"history {labels}, {mode} engine call {point}/{total} (in {label}): {mp}")
            if not any(_norm(got, have) == _norm(a, have) for a in allowed):
                what = "torn-state" if inside else "committed-state-lost-or-changed"
                ctx.fail(
                    f"C18|kill|{what}|{label}",
                    f"history {labels}, {mode} engine call {point}/{total} (call {point - first_call_of_j + 1} of {last_call_of_j - first_call_of_j + 1} in {label}): found {_diff(allowed[-1], got)} relative to the state after it; and {_diff(allowed[0], got)} relative to the state before it",
                )
    finally:
        shutil.rmtree(root, ignore_errors=True)


def _diff(a: dict, b: dict) -> str:
    out = []
    for k in ("schemas", "tables", "columns"):
        sa, sb = {json.dumps(x) for x in a[k]}, {json.dumps(x) for x in b[k]}
        if sa != sb:
            out.append(f"{k}: -{sorted(sa - sb)[:4]} +{sorted(sb - sa)[:4]}")
    for k in sorted(set(a["rows"]) | set(b["rows"])):
        if a["rows"].get(k) != b["rows"].get(k):
            out.append(f"rows[{k}]: {a['rows'].get(k)} -> {b['rows'].get(k)}")
    return "; ".join(out)[:900] or "no difference"


# ------------------------------------------------------------------------------------------ in-memory instances


@st.composite
def _mem_case(draw, tier):
    return {"stmts": [draw(st.integers(0, len(STATEMENTS) - 1)) for _ in range(draw(st.integers(1, 6)))], "via": draw(st.sampled_from(["patch", "instances"]))}


def _child_memory(workdir: str, stmts: list[int], via: str, out_path: str) -> None:
    import snowflake.connector

    import fakesnow
    from vf.util import new_instance, run

    os.chdir(workdir)
    res: dict = {"problems": []}
    if via == "patch":
        for round_ in range(2):
            with fakesnow.patch():
                conn = snowflake.connector.connect(database="DB1", schema="S1")
                cur = conn.cursor()
                if round_ == 1:
                    o = run(cur, "SELECT table_name FROM information_schema.tables WHERE table_schema = 'S1'")
                    if not o.ok or o.rows:
                        res["problems"].append(f"second in-memory patch() sees objects of the first: {o}")
                for k, si in enumerate(stmts):
                    try:
                        cur.execute(STATEMENTS[si][1].replace("{n}", str(k)))
                    except Exception:
                        pass
    else:
        a, b = new_instance(), new_instance()
        ca, cb = a.connect("DB1", "S1"), b.connect("DB1", "S1")
        for k, si in enumerate(stmts):
            try:
                ca.cursor().execute(STATEMENTS[si][1].replace("{n}", str(k)))
            except Exception:
                pass
        o = run(cb.cursor(), "SELECT table_name FROM information_schema.tables WHERE table_schema IN ('S1', 'S2') AND table_catalog IN ('DB1', 'DB2')")
        if not o.ok or o.rows:
            res["problems"].append(f"a second in-memory instance sees objects of the first: {o}")
        o = run(cb.cursor(), "SHOW SCHEMAS IN DATABASE DB1")
        if o.ok and any(r[1] == "S2" for r in o.rows):
            res["problems"].append("schema S2 of the first instance visible in the second")
    res["files"] = sorted(os.listdir(workdir))
    with open(out_path, "w") as f:
        json.dump(res, f)


def run_memory(case, ctx: Ctx) -> None:
    if case["via"] not in ("patch", "instances") or any(not isinstance(i, int) or not 0 <= i < len(STATEMENTS) for i in case["stmts"]):
        raise InvalidCase()
    root = tempfile.mkdtemp(prefix="vf-c18m-")
    try:
        work = os.path.join(root, "cwd")
        os.mkdir(work)
        tmp_before = set(os.listdir(tempfile.gettempdir()))
        out = os.path.join(root, "out.json")
        st_, err = _fork(_child_memory, work, case["stmts"], case["via"], out)
        if st_ != 0:
            raise RuntimeError(f"memory child failed ({st_}): {err[-1200:]}")
        res = json.load(open(out))
        ctx.cls(f"memory:{case['via']}")
        ctx.nontrivial = True
        for p in res["problems"]:
            ctx.fail(f"C18|in-memory|instances-share-objects|{case['via']}", p)
        if res["files"]:
            ctx.fail("C18|in-memory|files-in-working-directory", f"{res['files']}")
        new_tmp = {f for f in set(os.listdir(tempfile.gettempdir())) - tmp_before if f.endswith((".db", ".wal", ".duckdb"))}
        if new_tmp:
            ctx.fail("C18|in-memory|files-in-temp-directory", f"{sorted(new_tmp)}")
    finally:
        shutil.rmtree(root, ignore_errors=True)


PROP = Prop(
    id="C18",
    level="fault_enumeration",
    facets=[
        Facet(
            name="durability",
            strategy=_case,
            run=run_durability,
            rule=(
                "Hypothesis draws a history of 2-10 statements (CREATE TABLE with COMMENT / VARCHAR lengths, CREATE OR REPLACE, INSERT/UPDATE/"
                "DELETE, ALTER ADD COLUMN, COMMENT ON, CREATE VIEW/SCHEMA/DATABASE, objects in a second schema and database, BEGIN/COMMIT/"
                "ROLLBACK, MERGE, CTAS, DROP) run under fakesnow.patch(db_path) in a forked process, an exit mode (clean exit, exception in "
                "the body) and 2-8/40 crash points: SIGKILL before or after the N-th engine call (N over every call of the history incl. "
                "connect's bootstrap, counted by a proxy around the DuckDB connection). A reference run yields the committed state S0..Sn "
                "after every statement; a fresh verifier process (same path, reconnect options varied) dumps what it finds. Oracle: exit -> "
                "Sn; kill inside statement j -> S(j-1) or S(j), at a boundary exactly that state; the verifier itself must start. "
                "Non-trivial: a kill inside a multi-engine-call statement or right around a COMMIT."
            ),
            quick=3,
            thorough=40,
            quick_shards=8,
            budget_quick=60,
            budget_thorough=900,
        ),
        Facet(
            name="in_memory",
            strategy=_mem_case,
            run=run_memory,
            rule="In a forked process whose cwd is an empty directory: two successive in-memory patch() blocks, or two FakeSnow() instances, run generated statements; the second must see none of the first's objects and no file may appear in the working or temp directory.",
            quick=6,
            thorough=60,
            quick_shards=2,
            budget_quick=40,
        ),
    ],
    assumptions=[
        "crash points are engine-call boundaries (before/after each DuckDB execute); kills inside one engine call are not enumerated",
        "committed state = what a fresh engine cursor of the reference run sees after each statement",
    ],
)
