"""C04 — DML changes exactly the right rows and reports the true affected count; DDL status messages."""

from __future__ import annotations

from hypothesis import strategies as st

from vf.engine import Ctx, Facet, InvalidCase, Prop
from vf.model import tables as tm
from vf.model.tables import COLS, IDX, TYPES, eval3, pred_sql
from vf.util import close_instance, etype_name, new_instance, run, same_value, sql_lit

TABLES = ["T1", "T2", "T3"]

_ints = st.one_of(st.none(), st.integers(-2, 5))
_strs = st.one_of(st.none(), st.sampled_from(["a", "b", "", "A", "x'y", "a b"]))
_bools = st.one_of(st.none(), st.booleans())
_VAL = {"K": _ints, "V": _strs, "N": _ints, "B": _bools}
_row = st.tuples(_ints, _strs, _ints, _bools).map(list)

_leaf = st.one_of(
    st.tuples(st.just("cmp"), st.sampled_from(["K", "N"]), st.sampled_from(["=", "<>", "<", "<=", ">", ">="]), st.integers(-2, 5)).map(list),
    st.tuples(st.just("cmp"), st.just("V"), st.sampled_from(["=", "<>", "<", ">="]), st.sampled_from(["a", "b", "", "A"])).map(list),
    st.tuples(st.just("cmp"), st.just("B"), st.sampled_from(["=", "<>"]), st.booleans()).map(list),
    st.tuples(st.just("cmpcol"), st.just("K"), st.sampled_from(["=", "<>", "<", ">="]), st.just("N")).map(list),
    st.tuples(st.sampled_from(["isnull", "notnull"]), st.sampled_from(COLS)).map(list),
    st.tuples(st.just("in"), st.sampled_from(["K", "N"]), st.lists(st.one_of(st.integers(-2, 5), st.none()), min_size=1, max_size=3)).map(list),
    st.tuples(st.just("between"), st.sampled_from(["K", "N"]), st.integers(-2, 3), st.integers(0, 5)).map(list),
    st.just(["true"]),
    st.just(["false"]),
)
_pred = st.recursive(
    _leaf,
    lambda c: st.one_of(
        st.tuples(st.just("and"), c, c).map(list), st.tuples(st.just("or"), c, c).map(list), st.tuples(st.just("not"), c).map(list)
    ),
    max_leaves=4,
)


@st.composite
def _set_clause(draw):
    col = draw(st.sampled_from(COLS))
    if col in ("K", "N"):
        e = draw(
            st.one_of(
                st.tuples(st.just("const"), _ints).map(list),
                st.tuples(st.just("add"), st.sampled_from(["K", "N"]), st.integers(-2, 3)).map(list),
                st.tuples(st.just("col"), st.sampled_from(["K", "N"])).map(list),
            )
        )
    else:
        e = ["const", draw(_VAL[col])]
    return [col, e]


@st.composite
def _insert_values(draw):
    cols = draw(st.one_of(st.none(), st.permutations(COLS).flatmap(lambda p: st.integers(1, 4).map(lambda n: list(p[:n])))))
    use = cols or COLS
    rows = draw(st.lists(st.tuples(*[_VAL[c] for c in use]).map(list), min_size=1, max_size=4))
    return ["insert_values", draw(st.integers(0, 2)), cols, rows]


_op = st.one_of(
    _insert_values(),
    st.tuples(
        st.just("insert_select"),
        st.integers(0, 2),
        st.integers(0, 2),
        st.one_of(st.none(), st.permutations(COLS).flatmap(lambda p: st.integers(1, 4).map(lambda n: list(p[:n])))),
        _pred,
    ).map(list),
    st.tuples(st.just("update"), st.integers(0, 2), st.lists(_set_clause(), min_size=1, max_size=3, unique_by=lambda s: s[0]), _pred).map(list),
    st.tuples(st.just("update"), st.integers(0, 2), st.lists(_set_clause(), min_size=1, max_size=3, unique_by=lambda s: s[0]), _pred).map(list),
    st.tuples(st.just("delete"), st.integers(0, 2), _pred).map(list),
    st.tuples(st.just("delete"), st.integers(0, 2), _pred).map(list),
    st.tuples(st.just("truncate"), st.integers(0, 2)).map(list),
)


@st.composite
def _case(draw, tier):
    maxrows = 8 if tier == "quick" else 30
    return {
        "tables": [draw(st.lists(_row, max_size=maxrows)) for _ in TABLES],
        "ops": draw(st.lists(_op, min_size=3, max_size=12)),
        "cursor_reuse": draw(st.booleans()),
    }


def _apply_expr(e, row):
    if e[0] == "const":
        return e[1]
    if e[0] == "add":
        x = row[IDX[e[1]]]
        return None if x is None else x + e[2]
    if e[0] == "col":
        return row[IDX[e[1]]]
    raise InvalidCase()


def _expr_sql(e) -> str:
    if e[0] == "const":
        return sql_lit(e[1])
    if e[0] == "add":
        return f"{e[1]} + {e[2]}" if e[2] >= 0 else f"{e[1]} - {-e[2]}"
    if e[0] == "col":
        return e[1]
    raise InvalidCase()


def _ms(rows):
    return sorted((tuple(r) for r in rows), key=repr)


def run_dml(case, ctx: Ctx) -> None:
    if len(case["tables"]) != len(TABLES):
        raise InvalidCase()
    fs = new_instance()
    try:
        conn = fs.connect("db1", "s1")
        cur = conn.cursor()
        model = {}
        for name, rows in zip(TABLES, case["tables"]):
            if any(len(r) != 4 for r in rows):
                raise InvalidCase()
            cur.execute(f"CREATE TABLE {name} (K INT, V VARCHAR, N INT, B BOOLEAN)")
            if rows:
                cur.execute(f"INSERT INTO {name} VALUES " + ", ".join("(" + ", ".join(sql_lit(v, TYPES[c]) for c, v in zip(COLS, r)) + ")" for r in rows))
            model[name] = [tuple(r) for r in rows]
        saw_zero = saw_partial_with_null = False
        try:
            for op in case["ops"]:
                kind = op[0]
                if not case.get("cursor_reuse"):
                    cur = conn.cursor()
                t = TABLES[op[1]]
                before = {k: list(v) for k, v in model.items()}
                if kind == "insert_values":
                    cols, rows = op[2], op[3]
                    use = cols or COLS
                    if any(len(r) != len(use) for r in rows) or len(set(use)) != len(use):
                        raise InvalidCase()
                    sql = f"INSERT INTO {t}{' (' + ', '.join(use) + ')' if cols else ''} VALUES " + ", ".join(
                        "(" + ", ".join(sql_lit(v, TYPES[c]) for c, v in zip(use, r)) + ")" for r in rows
                    )
                    new = [tuple(dict(zip(use, r)).get(c) for c in COLS) for r in rows]
                    model[t] = model[t] + new
                    count, label, names = len(new), "insert-values", ["number of rows inserted"]
                    want_status = [(count,)]
                elif kind == "insert_select":
                    src, cols, pred = TABLES[op[2]], op[3], op[4]
                    use = cols or COLS
                    sel = [r for r in before[src] if eval3(pred, r) is True]
                    sql = (
                        f"INSERT INTO {t}{' (' + ', '.join(use) + ')' if cols else ''} SELECT {', '.join(use) if cols else '*'} "
                        f"FROM {src} WHERE {pred_sql(pred)}"
                    )
                    new = [tuple(r[IDX[c]] if c in use else None for c in COLS) for r in sel]
                    model[t] = model[t] + new
                    count, label, names = len(new), "insert-select", ["number of rows inserted"]
                    want_status = [(count,)]
                elif kind == "update":
                    sets, pred = op[2], op[3]
                    if len({s[0] for s in sets}) != len(sets):
                        raise InvalidCase()
                    sql = f"UPDATE {t} SET " + ", ".join(f"{c} = {_expr_sql(e)}" for c, e in sets) + f" WHERE {pred_sql(pred)}"
                    out, count = [], 0
                    for r in before[t]:
                        if eval3(pred, r) is True:
                            count += 1
                            nr = list(r)
                            for c, e in sets:
                                nr[IDX[c]] = _apply_expr(e, r)
                            out.append(tuple(nr))
                        else:
                            out.append(r)
                    model[t] = out
                    label, names = "update", ["number of rows updated", "number of multi-joined rows updated"]
                    want_status = [(count, 0)]
                elif kind == "delete":
                    pred = op[2]
                    sql = f"DELETE FROM {t} WHERE {pred_sql(pred)}"
                    keep = [r for r in before[t] if eval3(pred, r) is not True]
                    count = len(before[t]) - len(keep)
                    model[t] = keep
                    label, names = "delete", ["number of rows deleted"]
                    want_status = [(count,)]
                elif kind == "truncate":
                    sql = f"TRUNCATE TABLE {t}"
                    count = None
                    model[t] = []
                    label, names, want_status = "truncate", None, None
                else:
                    raise InvalidCase()

                o = run(cur, sql)
                if not o.ok and o.etype.endswith("InternalException"):
                    # an assertion failure inside the engine (seen for predicates that fold to constant FALSE around BETWEEN): neither
                    # fakesnow's translation nor the property; the instance is unusable afterwards
                    ctx.cls("engine-internal-error")
                    ctx.excluded += 1
                    return
                if not o.ok:
                    ctx.fail(f"C04|{label}|raises|{o.etype}", f"{sql}: {o}")
                    return
                if count is not None:
                    n_before = len(before[t]) if kind in ("update", "delete") else None
                    how = "zero" if count == 0 else ("all" if n_before is not None and count == n_before else "some")
                    ctx.cls(f"{label}:{how}")
                    if count == 0:
                        saw_zero = True
                    if kind in ("update", "delete") and 0 < count < len(before[t]) and any(None in r for r in before[t]):
                        saw_partial_with_null = True
                    if o.rows is None or len(o.rows) != 1 or not all(same_value(a, b) for a, b in zip(o.rows[0], want_status[0])) or len(o.rows[0]) != len(want_status[0]):
                        ctx.fail(f"C04|{label}|status-row|{how}", f"{sql}: status {o.rows!r}, model {want_status!r}")
                    if o.rowcount != count:
                        ctx.fail(f"C04|{label}|rowcount|{how}", f"{sql}: rowcount {o.rowcount!r}, affected {count}")
                    try:
                        got_names = [d.name for d in cur.description]
                        if got_names != names:
                            ctx.fail(f"C04|{label}|status-names", f"{got_names} want {names}")
                    except Exception as e:
                        ctx.fail(f"C04|{label}|description-raises|{etype_name(e)}", str(e))
                # effect on the target and on bystanders
                chk = conn.cursor()
                for name in TABLES:
                    got = run(chk, f"SELECT K, V, N, B FROM {name}")
                    if not got.ok:
                        ctx.fail(f"C04|{label}|read-back-raises", f"{got}")
                        return
                    if _ms(got.rows) != _ms(model[name]) or not all(
                        same_value(a, b) for r, s in zip(_ms(got.rows), _ms(model[name])) for a, b in zip(r, s)
                    ):
                        which = "target" if name == t else "bystander"
                        ctx.fail(f"C04|{label}|wrong-rows|{which}", f"after {sql}: {name} = {_ms(got.rows)} model {_ms(model[name])}")
                        return
        finally:
            ctx.nontrivial = saw_zero and saw_partial_with_null
    finally:
        close_instance(fs)


# ------------------------------------------------------------------------------------------ DDL status messages

# (sql spelling, reported name)
OBJ_NAMES = [("foo", "FOO"), ("Foo_1", "FOO_1"), ('"my tbl"', "my tbl"), ('"lower"', "lower"), ("BAR", "BAR")]
QUALS = ["", "s1.", "db1.s1.", "DB1.S1."]

_ddl_op = st.one_of(
    st.tuples(st.sampled_from(["create_table", "create_or_replace_table", "create_view", "create_or_replace_view", "drop", "alter_add", "alter_rename_col", "alter_rename", "comment_on", "alter_set_comment", "create_table_comment", "ctas"]), st.integers(0, len(OBJ_NAMES) - 1), st.integers(0, len(QUALS) - 1)).map(list),
    st.tuples(st.sampled_from(["create_schema", "drop_schema", "create_database", "drop_database"]), st.integers(0, len(OBJ_NAMES) - 1), st.integers(0, 1)).map(list),
)


@st.composite
def _ddl_case(draw, tier):
    """State-aware (DROP / ALTER / COMMENT need an object that exists); a quarter of the operations is drawn blindly."""
    n = draw(st.integers(2, 10))
    objs: dict[int, str] = {}
    schemas: set[int] = set()
    dbs: set[int] = set()
    ops: list = []
    _ni, _qi = st.integers(0, len(OBJ_NAMES) - 1), st.integers(0, len(QUALS) - 1)
    for _ in range(n):
        if draw(st.integers(0, 3)) == 0:
            ops.append(draw(_ddl_op))
            continue
        tables = sorted(i for i, k in objs.items() if k == "TABLE")
        free = [i for i in range(len(OBJ_NAMES)) if i not in objs]
        menu = ["container"]
        if free:
            menu += ["create", "create"]
        if objs:
            menu += ["drop", "drop", "replace"]
        if tables:
            menu += ["alter_add", "alter_rename", "comment_on", "alter_set_comment"]
        what = draw(st.sampled_from(menu))
        qi = draw(_qi)
        if what == "create":
            i = draw(st.sampled_from(free))
            kind = draw(st.sampled_from(["create_table", "create_table_comment", "ctas", "create_view", "create_or_replace_table", "create_or_replace_view"]))
            objs[i] = "VIEW" if "view" in kind else "TABLE"
            ops.append([kind, i, qi])
        elif what == "drop":
            i = draw(st.sampled_from(sorted(objs)))
            del objs[i]
            ops.append(["drop", i, qi])
        elif what == "replace":
            i = draw(st.sampled_from(sorted(objs)))
            ops.append(["create_or_replace_table" if objs[i] == "TABLE" else "create_or_replace_view", i, qi])
        elif what == "alter_rename":
            i = draw(st.sampled_from(tables))
            del objs[i]
            ops.append(["alter_rename", i, qi])
        elif what in ("alter_add", "comment_on", "alter_set_comment"):
            ops.append([what, draw(st.sampled_from(tables)), qi])
        else:
            i = draw(_ni)
            which, pool = draw(st.sampled_from([("schema", schemas), ("database", dbs)]))
            if i in pool:
                pool.discard(i)
                ops.append([f"drop_{which}", i, draw(st.integers(0, 1))])
            else:
                pool.add(i)
                ops.append([f"create_{which}", i, draw(st.integers(0, 1))])
    return {"ops": ops}


def run_ddl(case, ctx: Ctx) -> None:
    fs = new_instance()
    try:
        conn = fs.connect("db1", "s1")
        cur = conn.cursor()
        objs: dict[str, str] = {}  # reported name -> kind (in DB1.S1)
        schemas: set[str] = set()
        dbs: set[str] = set()
        n_eff = 0
        for op in case["ops"]:
            kind, ni, qi = op
            spell, rep = OBJ_NAMES[ni]
            saved = (dict(objs), set(schemas), set(dbs))
            if kind in ("create_schema", "drop_schema", "create_database", "drop_database"):
                key = rep.upper()
                if kind == "create_schema":
                    if key in schemas:
                        continue
                    sql, want = f"CREATE SCHEMA {'db1.' if qi else ''}{spell}", f"Schema {rep} successfully created."
                    schemas.add(key)
                elif kind == "drop_schema":
                    if key not in schemas:
                        continue
                    sql, want = f"DROP SCHEMA {'db1.' if qi else ''}{spell}", f"{rep} successfully dropped."
                    schemas.discard(key)
                elif kind == "create_database":
                    if key in dbs:
                        continue
                    sql, want = f"CREATE DATABASE {spell}", f"Database {rep} successfully created."
                    dbs.add(key)
                else:
                    if key not in dbs:
                        continue
                    sql, want = f"DROP DATABASE {spell}", f"{rep} successfully dropped."
                    dbs.discard(key)
            else:
                name = QUALS[qi] + spell
                key = rep.upper()  # DuckDB is case-insensitive; avoid distinctness assumptions
                have = objs.get(key)
                if kind == "create_table":
                    if have:
                        continue
                    sql, want = f"CREATE TABLE {name} (id INT, note VARCHAR(20))", f"Table {rep} successfully created."
                    objs[key] = "TABLE"
                elif kind == "create_table_comment":
                    if have:
                        continue
                    sql, want = f"CREATE TABLE {name} (id INT) COMMENT = 'hello'", f"Table {rep} successfully created."
                    objs[key] = "TABLE"
                elif kind == "ctas":
                    if have:
                        continue
                    sql, want = f"CREATE TABLE {name} AS SELECT 1 AS id, 'x' AS note", f"Table {rep} successfully created."
                    objs[key] = "TABLE"
                elif kind == "create_or_replace_table":
                    if have == "VIEW":
                        continue
                    sql, want = f"CREATE OR REPLACE TABLE {name} (id INT, note VARCHAR)", f"Table {rep} successfully created."
                    objs[key] = "TABLE"
                elif kind == "create_view":
                    if have:
                        continue
                    sql, want = f"CREATE VIEW {name} AS SELECT 1 AS id", f"View {rep} successfully created."
                    objs[key] = "VIEW"
                elif kind == "create_or_replace_view":
                    if have == "TABLE":
                        continue
                    sql, want = f"CREATE OR REPLACE VIEW {name} AS SELECT 2 AS id", f"View {rep} successfully created."
                    objs[key] = "VIEW"
                elif kind == "drop":
                    if not have:
                        continue
                    sql, want = f"DROP {have} {name}", f"{rep} successfully dropped."
                    del objs[key]
                elif kind == "alter_add":
                    if have != "TABLE":
                        continue
                    sql, want = f"ALTER TABLE {name} ADD COLUMN extra{n_eff} INT", "Statement executed successfully."
                elif kind == "alter_rename_col":
                    if have != "TABLE":
                        continue
                    sql, want = f"ALTER TABLE {name} RENAME COLUMN id TO id", "Statement executed successfully."
                    continue  # renaming to itself is not meaningful; skip
                elif kind == "alter_rename":
                    newkey = "RENAMED_T"
                    if have != "TABLE" or newkey in objs:
                        continue
                    sql, want = f"ALTER TABLE {name} RENAME TO renamed_t", "Statement executed successfully."
                    del objs[key]
                    objs[newkey] = "TABLE"
                elif kind == "comment_on":
                    if have != "TABLE":
                        continue
                    sql, want = f"COMMENT ON TABLE {name} IS 'a comment'", "Statement executed successfully."
                elif kind == "alter_set_comment":
                    if have != "TABLE":
                        continue
                    sql, want = f"ALTER TABLE {name} SET COMMENT = 'another'", "Statement executed successfully."
                else:
                    raise InvalidCase()
            n_eff += 1
            quoted = spell.startswith('"')
            ctx.cls(f"ddl:{kind}", "quoted-name" if quoted else "unquoted-name")
            o = run(cur, sql)
            if not o.ok:
                ctx.fail(f"C04|ddl|raises|{kind}|{o.etype}", f"{sql}: {o}")
                objs, schemas, dbs = saved  # the statement had no effect; keep going behind it
                continue
            if o.rows != [(want,)]:
                ctx.fail(f"C04|ddl|status-text|{kind}|{'quoted' if quoted else 'unquoted'}", f"{sql}: {o.rows!r} want {[(want,)]!r}")
            try:
                d = cur.description
                if [c.name for c in d] != ["status"]:
                    ctx.fail(f"C04|ddl|status-column-name|{kind}", f"{[c.name for c in d]}")
            except Exception as e:
                ctx.fail(f"C04|ddl|description-raises|{kind}|{etype_name(e)}", str(e))
        ctx.nontrivial = n_eff >= 2
    finally:
        close_instance(fs)


PROP = Prop(
    id="C04",
    selftest=tm.selftest,
    facets=[
        Facet(
            name="dml_histories",
            strategy=_case,
            run=run_dml,
            rule=(
                "Hypothesis draws three tables (K INT, V VARCHAR, N INT, B BOOLEAN) with 0-8/30 rows incl. NULLs and duplicates and 3-12 "
                "statements: INSERT VALUES (1-4 rows, optional permuted column list), INSERT..SELECT (same/other table, predicate, optional "
                "column list), UPDATE SET (constant, NULL, col+const, other column) WHERE p, DELETE WHERE p, TRUNCATE; predicates from a "
                "3VL grammar (cmp, col-col, IS [NOT] NULL, IN with NULLs, BETWEEN, AND/OR/NOT, always true/false). Oracle: table model + "
                "Kleene evaluator; after every statement status row, status column names, rowcount, target multiset and bystanders. "
                "Non-trivial: a history with >=1 statement affecting zero rows and >=1 UPDATE/DELETE affecting some-but-not-all rows of a table containing a NULL."
            ),
            quick=150,
            thorough=2500,
            budget_quick=55,
        ),
        Facet(
            name="ddl_status",
            strategy=_ddl_case,
            run=run_ddl,
            rule=(
                "Hypothesis draws 2-10 valid DDL statements (CREATE [OR REPLACE] TABLE/VIEW, CTAS, CREATE TABLE..COMMENT, ALTER ADD/RENAME, "
                "COMMENT ON, ALTER SET COMMENT, DROP, CREATE/DROP SCHEMA/DATABASE) over unquoted/mixed-case/quoted names at three "
                "qualification levels; oracle: the Snowflake status message naming the object (unquoted upper-cased, quoted verbatim)."
            ),
            quick=60,
            thorough=600,
            quick_shards=4,
            budget_quick=40,
        ),
    ],
    assumptions=["TRUNCATE's status row is not asserted (the property does not state it)", "only valid DDL is generated (failures are C07's subject)"],
)
