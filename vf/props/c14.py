"""C14 — connect() does what its options say in every configuration (finite product, enumerated)."""

from __future__ import annotations

import itertools
import os
import shutil
import tempfile

from vf.engine import Ctx, Facet, InvalidCase, Prop
from vf.util import close_instance, etype_name, new_instance, run, snapshot, diff_snap

DBS = [None, "db1", "DB1", "Db1"]
SCHEMAS = [None, "s1", "S1", "information_schema", "INFORMATION_SCHEMA"]
STORAGE = ["memory", "empty_path", "path_db", "path_db_schema_data"]
PRIOR = ["nothing", "database", "database+schema", "database+schema+data"]
SECOND_QUICK = ["none", "othercase-before"]
SECOND_MORE = ["same-before", "dbonly-before"]


def _enum(tier: str):
    seconds = SECOND_QUICK if tier == "quick" else SECOND_QUICK + SECOND_MORE + [f"pair:{d}:{s}" for d in range(len(DBS)) for s in range(len(SCHEMAS))]
    for db, sc, cd, cs, sto, pri, sec in itertools.product(
        range(len(DBS)), range(len(SCHEMAS)), [True, False], [True, False], range(len(STORAGE)), range(len(PRIOR)), seconds
    ):
        yield {"db": db, "schema": sc, "create_db": cd, "create_schema": cs, "storage": sto, "prior": pri, "second": sec}
    # the same options given to fakesnow.patch() and the connection made through the patched snowflake.connector.connect
    for db, sc, cd, cs, sto, pri in itertools.product(range(len(DBS)), range(len(SCHEMAS)), [True, False], [True, False], [0, 1] if tier == "quick" else range(len(STORAGE)), [0, 2] if tier == "quick" else range(len(PRIOR))):
        yield {"db": db, "schema": sc, "create_db": cd, "create_schema": cs, "storage": sto, "prior": pri, "second": "none", "via": "patch"}


def _listing(fs) -> tuple[set, set]:
    c = fs.duck_conn.cursor()
    try:
        rows = c.execute(
            "select upper(catalog_name), upper(schema_name) from information_schema.schemata "
            "where catalog_name not in ('system','temp','memory','_fs_global')"
        ).fetchall()
    finally:
        c.close()
    dbs = {r[0] for r in rows}
    schemas = {(r[0], r[1]) for r in rows if r[1] not in ("MAIN", "PG_CATALOG", "INFORMATION_SCHEMA")}
    return dbs, schemas


def _prepare_path(kind: str, root: str) -> str:
    path = os.path.join(root, "dbs")
    os.mkdir(path)
    if kind in ("path_db", "path_db_schema_data"):
        fs0 = new_instance(db_path=path)
        try:
            c = fs0.connect()
            cur = c.cursor()
            cur.execute("CREATE DATABASE DB1")
            if kind == "path_db_schema_data":
                cur.execute("CREATE SCHEMA DB1.S1")
                cur.execute("CREATE TABLE DB1.S1.ONDISK (i INT)")
                cur.execute("INSERT INTO DB1.S1.ONDISK VALUES (7), (8)")
        finally:
            close_instance(fs0)
    return path


def run_config(case, ctx: Ctx) -> None:
    try:
        db_arg, sc_arg = DBS[case["db"]], SCHEMAS[case["schema"]]
        storage, prior = STORAGE[case["storage"]], PRIOR[case["prior"]]
    except (IndexError, TypeError):
        raise InvalidCase() from None
    cd, cs, second = bool(case["create_db"]), bool(case["create_schema"]), case["second"]
    root = tempfile.mkdtemp(prefix="vf-c14-")
    old_cwd = os.getcwd()
    watch = os.path.join(root, "cwd")
    os.mkdir(watch)
    os.chdir(watch)
    fs = None
    patcher = None
    disc = f"create_db={int(cd)}|create_schema={int(cs)}|db={'given' if db_arg else 'absent'}|schema={'info' if sc_arg and sc_arg.upper()=='INFORMATION_SCHEMA' else ('given' if sc_arg else 'absent')}"
    try:
        path = _prepare_path(storage, root) if storage != "memory" else None
        via = case.get("via", "instance")
        if via == "instance":
            fs = new_instance(create_database_on_connect=cd, create_schema_on_connect=cs, db_path=path)
        elif via == "patch":
            import snowflake.connector

            import fakesnow

            patcher = fakesnow.patch(create_database_on_connect=cd, create_schema_on_connect=cs, db_path=path)
            patcher.__enter__()
            fs = snowflake.connector.connect.side_effect.__self__
        else:
            raise InvalidCase()
        ctx.cls(f"via:{via}")
        # prior state in the live instance, built through an option-less session B (which stays open with a transaction)
        b = fs.connect()
        bcur = b.cursor()
        file_has_db = storage in ("path_db", "path_db_schema_data")
        if prior != "nothing":
            bcur.execute("CREATE DATABASE IF NOT EXISTS DB1")
            if prior in ("database+schema", "database+schema+data"):
                bcur.execute("CREATE SCHEMA IF NOT EXISTS DB1.S1")
            if prior == "database+schema+data":
                bcur.execute("CREATE TABLE DB1.S1.LIVE (i INT)")
                bcur.execute("INSERT INTO DB1.S1.LIVE VALUES (1), (2), (3)")
        bcur.execute("CREATE DATABASE ODB")
        bcur.execute("CREATE SCHEMA ODB.OS")
        bcur.execute("CREATE TABLE ODB.OS.T2 (i INT)")
        bcur.execute("INSERT INTO ODB.OS.T2 VALUES (10)")
        bcur.execute("BEGIN")
        bcur.execute("INSERT INTO ODB.OS.T2 VALUES (11)")
        b_ctx = (b.database, b.schema)

        def do_connect(d, s, label):
            try:
                if via == "patch":
                    kw = {k: v for k, v in (("database", d), ("schema", s)) if v is not None}
                    return snowflake.connector.connect(**kw)
                return fs.connect(d, s)
            except Exception as e:
                ctx.fail(f"C14|connect-raises|{etype_name(e)}|{label}|{disc}", f"connect({d!r}, {s!r}) storage={storage} prior={prior}: {e}")
                return None

        # an earlier connect (connection order dimension)
        if second != "none":
            ctx.cls("second-connection")
            if second == "same-before":
                d2, s2 = db_arg, sc_arg
            elif second == "othercase-before":
                d2, s2 = (db_arg.swapcase() if db_arg else "db1"), (sc_arg.swapcase() if sc_arg else None)
            elif second == "dbonly-before":
                d2, s2 = "dB1", None
            elif second.startswith("pair:"):
                _, i, j = second.split(":")
                d2, s2 = DBS[int(i)], SCHEMAS[int(j)]
            else:
                raise InvalidCase()
            if do_connect(d2, s2, "earlier") is None:
                return
        dbs0, sch0 = _listing(fs)
        snap0 = snapshot(fs)

        conn = do_connect(db_arg, sc_arg, "under-test")
        if conn is None:
            return
        ctx.nontrivial = db_arg is not None or sc_arg is not None
        ctx.cls(f"storage:{storage}", f"prior:{prior}", f"flags:{int(cd)}{int(cs)}")

        DB = db_arg.upper() if db_arg else None
        SC = sc_arg.upper() if sc_arg else None
        if conn.database != DB or conn.schema != SC:
            ctx.fail(f"C14|reported-names|{disc}", f"conn.database={conn.database!r} conn.schema={conn.schema!r} want {DB!r},{SC!r}")

        dbs1, sch1 = _listing(fs)
        # which objects may exist afterwards
        db_before = DB in dbs0 if DB else False
        attachable = bool(DB) and not db_before and path is not None and os.path.exists(os.path.join(path, f"{DB}.db"))
        want_db = db_before or (bool(DB) and cd)
        is_info = SC == "INFORMATION_SCHEMA"
        if DB and SC:
            sc_before = ((DB, SC) in sch0) or (is_info and db_before)
            sc_in_file = attachable and cd and storage == "path_db_schema_data" and SC == "S1"
            want_sc = sc_before or sc_in_file or (is_info and want_db) or (cs and want_db)
        else:
            want_sc = False
        allowed_dbs = dbs0 | ({DB} if (DB and cd) else set())
        allowed_sch = set(sch0)
        if DB and SC and not is_info and cs and want_db:
            allowed_sch |= {(DB, SC)}
        if attachable and cd and storage == "path_db_schema_data":
            allowed_sch |= {(DB, "S1")}  # content of the attached file
        if dbs1 != (dbs0 | ({DB} if want_db and DB else set())):
            ctx.fail(f"C14|databases-after|{disc}", f"storage={storage} prior={prior}: databases {sorted(dbs0)} -> {sorted(dbs1)}, option-allowed {sorted(allowed_dbs)}")
        want_sch1 = set(sch0)
        if DB and SC and not is_info and want_sc:
            want_sch1 |= {(DB, SC)}
        if attachable and cd and storage == "path_db_schema_data":
            want_sch1 |= {(DB, "S1")}
        if sch1 != want_sch1:
            ctx.fail(f"C14|schemas-after|{disc}", f"storage={storage} prior={prior}: schemas {sorted(sch0)} -> {sorted(sch1)}, want {sorted(want_sch1)}")

        # session context, observed through behaviour
        cur = conn.cursor()
        o = run(cur, "CREATE TABLE VF_PROBE (i INT)")
        if not want_db:
            exp = "90105"
        elif not want_sc:
            exp = "90106"
        else:
            exp = "ok"
        got = "ok" if o.ok else str(o.errno)
        if got != exp:
            ctx.fail(f"C14|context|unqualified-create|want={exp}|got={got}|{disc}", f"connect({db_arg!r},{sc_arg!r}) storage={storage} prior={prior} second={second}: {o}")
        elif o.ok:
            # the table landed in the requested schema
            c = fs.duck_conn.cursor()
            where = c.execute("select upper(table_catalog), upper(table_schema) from information_schema.tables where table_name='VF_PROBE'").fetchall()
            c.close()
            if where != [(DB, SC)]:
                ctx.fail(f"C14|context|probe-landed-elsewhere|{disc}", f"{where} want {[(DB, SC)]}")
            run(cur, "DROP TABLE VF_PROBE")
        if want_db and not want_sc:
            # the database is current although the schema is not: an unqualified CREATE SCHEMA belongs to it
            o3 = run(cur, "CREATE SCHEMA VF_PS")
            if not o3.ok:
                ctx.fail(f"C14|context|unqualified-create-schema|raises|{disc}", f"connect({db_arg!r},{sc_arg!r}) storage={storage} prior={prior}: {o3}")
            else:
                c = fs.duck_conn.cursor()
                where = c.execute("select upper(catalog_name) from information_schema.schemata where upper(schema_name)='VF_PS'").fetchall()
                c.close()
                if where != [(DB,)]:
                    ctx.fail(f"C14|context|schema-probe-landed-elsewhere|{disc}", f"{where} want {[(DB,)]}")
                o4 = run(cur, "USE SCHEMA VF_PS")
                if not o4.ok:
                    ctx.fail(f"C14|context|use-created-schema-fails|{disc}", f"{o4}")
                for d_ in {w[0] for w in where}:
                    run(conn.cursor(), f"DROP SCHEMA {d_}.VF_PS")
        if want_db and want_sc:
            o2 = run(cur, "SELECT CURRENT_DATABASE(), CURRENT_SCHEMA()")
            if not o2.ok or o2.rows != [(DB, SC)]:
                ctx.fail(f"C14|context|current-functions|{disc}", f"{o2} want {(DB, SC)}")

        # existing data and the other session undisturbed
        snap1 = snapshot(fs)
        for key, rows in snap0.get("rows", {}).items():
            if key.endswith("_fs_tables_ext") or key.endswith("_fs_columns_ext"):
                continue
            if snap1["rows"].get(key) != rows:
                ctx.fail(f"C14|existing-data-changed|{disc}", f"{key}: {rows} -> {snap1['rows'].get(key)}")
        if storage == "path_db_schema_data" and want_db and prior == "nothing":
            c = fs.duck_conn.cursor()
            try:
                rows = sorted(c.execute("select i from DB1.S1.ONDISK").fetchall())
            except Exception as e:
                rows = f"{type(e).__name__}"
            c.close()
            if rows != [(7,), (8,)]:
                ctx.fail(f"C14|on-disk-data|{disc}", f"rows of the pre-existing file's table: {rows}")
        if (b.database, b.schema) != b_ctx:
            ctx.fail(f"C14|other-session|context-moved|{disc}", f"{b_ctx} -> {(b.database, b.schema)}")
        ob = run(bcur, "SELECT i FROM ODB.OS.T2 ORDER BY i")
        if not ob.ok or ob.rows != [(10,), (11,)]:
            ctx.fail(f"C14|other-session|open-transaction-disturbed|{disc}", f"{ob}")
        oc = run(conn.cursor(), "SELECT i FROM ODB.OS.T2 ORDER BY i")
        if not oc.ok or oc.rows != [(10,)]:
            ctx.fail(f"C14|other-session|uncommitted-visible|{disc}", f"{oc}")
        orb = run(bcur, "ROLLBACK")
        if not orb.ok:
            ctx.fail(f"C14|other-session|rollback-failed|{disc}", f"{orb}")

        # files
        stray = sorted(os.listdir(watch))
        if stray:
            ctx.fail(f"C14|files|stray-in-cwd|storage={storage}", f"{stray}")
        if path is not None:
            files = sorted(f for f in os.listdir(path) if not f.endswith(".wal"))
            want_files = {"ODB.db"}
            if file_has_db or "DB1" in dbs0 or (DB and cd):
                want_files.add("DB1.db")
            if set(files) != want_files:
                ctx.fail(f"C14|files|db_path-contents|{disc}", f"storage={storage} prior={prior}: {files} want {sorted(want_files)}")
    finally:
        os.chdir(old_cwd)
        if patcher is not None:
            try:
                patcher.__exit__(None, None, None)
            except Exception:
                pass
        elif fs is not None:
            close_instance(fs)
        shutil.rmtree(root, ignore_errors=True)


# ------------------------------------------------------------------------------------------ look-alike sibling names

NAMEPAIRS = [("dev_db", "DEV1DB", "raw_1", "RAWX1"), ("dev", "DEVX", "raw", "RAWX"), ("d_", "D1", "s_", "S1"), ("Dev_Db", "DEVxDB", "Raw_1", "RAW11")]
SIB_PRIOR = ["nothing", "database", "database+schema"]


def _enum_siblings(tier: str):
    for np_, cd, cs, dsib, ssib, pri, order in itertools.product(range(len(NAMEPAIRS)), [True, False], [True, False], [True, False], [True, False], range(len(SIB_PRIOR)), ["siblings-first", "siblings-last"]):
        if not (dsib or ssib):
            continue
        yield {"names": np_, "create_db": cd, "create_schema": cs, "db_sibling": dsib, "schema_sibling": ssib, "prior": pri, "order": order}


def run_siblings(case, ctx: Ctx) -> None:
    """Objects whose names merely resemble the requested ones (differ where the requested name has `_`, or extend it) are other objects."""
    try:
        db_arg, sibdb, sc_arg, sibsc = NAMEPAIRS[case["names"]]
        prior = SIB_PRIOR[case["prior"]]
    except (IndexError, TypeError):
        raise InvalidCase() from None
    cd, cs = bool(case["create_db"]), bool(case["create_schema"])
    DB, SC, SDB, SSC = db_arg.upper(), sc_arg.upper(), sibdb.upper(), sibsc.upper()
    disc = f"create_db={int(cd)}|create_schema={int(cs)}|prior={prior}|siblings={'db' if case['db_sibling'] else ''}{'+schema' if case['schema_sibling'] else ''}|{case['order']}"
    fs = new_instance(create_database_on_connect=cd, create_schema_on_connect=cs)
    try:
        bcur = fs.connect().cursor()

        def make_prior():
            if prior != "nothing":
                bcur.execute(f"CREATE DATABASE IF NOT EXISTS {DB}")
                if prior == "database+schema":
                    bcur.execute(f"CREATE SCHEMA {DB}.{SC}")

        def make_siblings():
            if case["db_sibling"]:
                bcur.execute(f"CREATE DATABASE {SDB}")
                bcur.execute(f"CREATE SCHEMA {SDB}.{SC}")
                bcur.execute(f"CREATE SCHEMA {SDB}.{SSC}")
            if case["schema_sibling"] and prior != "nothing":
                bcur.execute(f"CREATE DATABASE IF NOT EXISTS {DB}")
                bcur.execute(f"CREATE SCHEMA {DB}.{SSC}")

        for step in (make_siblings, make_prior) if case["order"] == "siblings-first" else (make_prior, make_siblings):
            step()
        dbs0, sch0 = _listing(fs)
        try:
            conn = fs.connect(db_arg, sc_arg)
        except Exception as e:
            ctx.fail(f"C14|siblings|connect-raises|{etype_name(e)}|{disc}", f"connect({db_arg!r}, {sc_arg!r}) with {sorted(dbs0)} / {sorted(sch0)}: {e}")
            return
        ctx.nontrivial = True
        ctx.cls(f"siblings:{disc.split('|')[3]}", f"prior:{prior}", f"flags:{int(cd)}{int(cs)}")
        if (conn.database, conn.schema) != (DB, SC):
            ctx.fail(f"C14|siblings|reported-names|{disc}", f"{(conn.database, conn.schema)} want {(DB, SC)}")
        want_db = prior != "nothing" or cd
        want_sc = prior == "database+schema" or (cs and want_db)
        dbs1, sch1 = _listing(fs)
        if dbs1 != dbs0 | ({DB} if want_db else set()):
            ctx.fail(f"C14|siblings|databases-after|{disc}", f"{sorted(dbs0)} -> {sorted(dbs1)}; requested {DB}, want_db={want_db}")
        if sch1 != sch0 | ({(DB, SC)} if want_sc else set()):
            ctx.fail(f"C14|siblings|schemas-after|{disc}", f"{sorted(sch0)} -> {sorted(sch1)}; requested {(DB, SC)}, want_sc={want_sc}")
        o = run(conn.cursor(), "CREATE TABLE VF_PROBE (i INT)")
        exp = "90105" if not want_db else ("90106" if not want_sc else "ok")
        got = "ok" if o.ok else str(o.errno)
        if got != exp:
            ctx.fail(f"C14|siblings|unqualified-create|want={exp}|got={got}|{disc}", f"connect({db_arg!r},{sc_arg!r}) with {sorted(dbs0)} / {sorted(sch0)}: {o}")
        elif o.ok:
            c = fs.duck_conn.cursor()
            where = c.execute("select upper(table_catalog), upper(table_schema) from information_schema.tables where table_name='VF_PROBE'").fetchall()
            c.close()
            if where != [(DB, SC)]:
                ctx.fail(f"C14|siblings|probe-landed-elsewhere|{disc}", f"{where} want {[(DB, SC)]}")
        if want_db and want_sc:
            o2 = run(conn.cursor(), "SELECT CURRENT_DATABASE(), CURRENT_SCHEMA()")
            if not o2.ok or o2.rows != [(DB, SC)]:
                ctx.fail(f"C14|siblings|current-functions|{disc}", f"{o2} want {(DB, SC)}")
    finally:
        close_instance(fs)


PROP = Prop(
    id="C14",
    facets=[
        Facet(
            name="configurations",
            strategy=None,
            enumerate=_enum,
            run=run_config,
            rule=(
                "Complete product: database arg {absent, db1, DB1, Db1} x schema arg {absent, s1, S1, information_schema, "
                "INFORMATION_SCHEMA} x create_database_on_connect x create_schema_on_connect x storage {memory, empty db_path, db_path "
                "holding DB1.db, db_path holding DB1.db with schema+rows} x prior live state {nothing, database, +schema, +data} x an "
                "earlier connect {none, same args, other letter case, database only} (thorough: + every argument pair), plus the same options "
                "given to fakesnow.patch() with the connection made through the patched snowflake.connector.connect: 2880 / 32000 "
                "configurations, each with a second session holding an open transaction. Oracle: pure function of the configuration "
                "(objects created, names reported, 90105/90106/success of an unqualified CREATE TABLE, files, bystanders). "
                "Non-trivial: every configuration except 'both arguments absent'."
            ),
            quick_shards=12,
            thorough_shards=16,
            budget_quick=100,
            budget_thorough=1200,
        ),
        Facet(
            name="sibling_names",
            strategy=None,
            enumerate=_enum_siblings,
            run=run_siblings,
            rule=(
                "Complete product: 4 requested (database, schema) name pairs containing `_` or being a prefix of another name x look-alike sibling "
                "database and/or sibling schema already present (DEV1DB beside dev_db, RAWX1 beside raw_1, DEVX beside dev) x the two create flags x prior "
                "state of the requested objects {nothing, database, database+schema} x creation order. Oracle: the configuration function of the main facet, "
                "which knows objects by their exact (case-folded) names only: siblings neither satisfy nor prevent the creation of the requested objects."
            ),
            quick_shards=4,
            thorough_shards=8,
            budget_quick=60,
            budget_thorough=300,
        ),
    ],
    assumptions=[
        "prior state is created through an option-less session with fully qualified DDL",
        "'exists' for a database means attached in the live instance; a file under db_path counts once connect (create on) or CREATE DATABASE attached it",
    ],
)
