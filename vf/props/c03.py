"""C03 — names resolve against each connection's own current database and schema."""

from __future__ import annotations

from hypothesis import strategies as st

from vf.engine import Ctx, Facet, InvalidCase, Prop
from vf.util import close_instance, new_instance, run

DBS = ["D1", "D2"]
SCHEMAS = ["S1", "S2"]
TABLES = ["T1", "T2"]

_db = st.sampled_from(DBS)
_sc = st.sampled_from(SCHEMAS)
_tb = st.sampled_from(TABLES)
_lvl = st.integers(1, 3)  # 1 = bare, 2 = schema.table, 3 = db.schema.table
_ci = st.integers(0, 2)


def _name():
    return st.tuples(_lvl, _db, _sc, _tb).map(list)


_op = st.one_of(
    st.tuples(st.just("create_db"), _ci, _db).map(list),
    st.tuples(st.just("create_schema"), _ci, st.booleans(), _db, _sc).map(list),
    st.tuples(st.just("drop_schema"), _ci, st.booleans(), _db, _sc).map(list),
    st.tuples(st.just("create_table"), _ci, _name()).map(list),
    st.tuples(st.just("create_table"), _ci, _name()).map(list),
    st.tuples(st.just("drop_table"), _ci, _name()).map(list),
    st.tuples(st.just("create_table_soft"), _ci, _name()).map(list),
    st.tuples(st.just("drop_table_soft"), _ci, _name()).map(list),
    st.tuples(st.just("create_view"), _ci, _name(), _name()).map(list),
    st.tuples(st.just("use_db"), _ci, _db).map(list),
    st.tuples(st.just("use_db"), _ci, _db).map(list),
    st.tuples(st.just("use_schema"), _ci, st.booleans(), _db, _sc).map(list),
    st.tuples(st.just("use_schema"), _ci, st.booleans(), _db, _sc).map(list),
    st.tuples(st.just("insert"), _ci, _name()).map(list),
    st.tuples(st.just("insert"), _ci, _name()).map(list),
    st.tuples(st.just("insert"), _ci, _name()).map(list),
    st.tuples(st.just("select"), _ci, _name()).map(list),
    st.tuples(st.just("update"), _ci, _name()).map(list),
    st.tuples(st.just("delete"), _ci, _name()).map(list),
    st.tuples(st.just("describe"), _ci, _name()).map(list),
    st.tuples(st.just("join"), _ci, _name(), _name()).map(list),
    st.tuples(st.just("insert_select"), _ci, _name(), _name()).map(list),
    st.tuples(st.just("ctas"), _ci, _name(), _name()).map(list),
    st.tuples(st.just("current"), _ci).map(list),
)


@st.composite
def _case(draw, tier):
    nconn = draw(st.integers(1, 3))
    # sessions that all start without any context (and get theirs from USE) or all from the same arguments are the ones whose
    # contexts are most easily confused with each other, so they get a fixed share
    profile = draw(st.sampled_from(["mixed", "mixed", "all-without-context", "same-arguments"]))
    if profile == "all-without-context":
        nconn = max(nconn, 2)
        conns = [[None, None] for _ in range(nconn)]
    elif profile == "same-arguments":
        nconn = max(nconn, 2)
        one = [draw(st.one_of(st.none(), _db)), draw(st.one_of(st.none(), _sc))]
        conns = [list(one) for _ in range(nconn)]
    else:
        conns = [[draw(st.one_of(st.none(), _db)), draw(st.one_of(st.none(), _sc))] for _ in range(nconn)]
    n = draw(st.integers(3, 25 if tier == "quick" else 60))
    # Operations are drawn with a rough picture of which tables exist (where they really land depends on the sessions' contexts, which the
    # interpreter's model knows): statements then mostly name tables that exist somewhere, and new tables are mostly given a name that
    # already exists in another database or schema - the situation in which resolving a name in the wrong place goes unnoticed least.
    # Two in five operations are drawn blindly (context changes, names that exist nowhere).
    exists: set = set()
    ops: list = []
    for _ in range(n):
        r = draw(st.integers(0, 9))
        if r < 4:
            op = draw(_op)
        elif r < 6 or not exists:
            twins = sorted({(d, s_, t) for d in DBS for s_ in SCHEMAS for t in TABLES} - exists, key=lambda k: (not any(e[2] == k[2] and e != k for e in exists), k))
            if not twins:
                continue
            k = twins[0] if exists and draw(st.booleans()) else draw(st.sampled_from(twins))
            op = ["create_table" if draw(st.integers(0, 3)) else "create_table_soft", draw(_ci), [draw(_lvl), *k]]
        else:
            k = draw(st.sampled_from(sorted(exists)))
            kind = draw(st.sampled_from(["insert", "insert", "select", "update", "delete", "describe", "describe", "drop_table", "drop_table_soft", "create_table_soft", "join", "insert_select", "create_view", "ctas"]))
            nm = [draw(_lvl), *k]
            if kind in ("join", "insert_select"):
                op = [kind, draw(_ci), nm, [draw(_lvl), *draw(st.sampled_from(sorted(exists)))]]
            elif kind in ("create_view", "ctas"):
                free = sorted({(d, s_, t) for d in DBS for s_ in SCHEMAS for t in TABLES} - exists)
                if not free:
                    continue
                op = [kind, draw(_ci), [draw(_lvl), *draw(st.sampled_from(free))], nm]
            else:
                op = [kind, draw(_ci), nm]
        ops.append(op)
        if op[0] in ("create_table", "create_table_soft", "ctas") and op[2][0] == 3:
            exists.add(tuple(op[2][1:]))
        elif op[0] in ("create_table", "create_table_soft"):
            exists.add(tuple(op[2][1:]))  # rough: a shorter name lands wherever the session's context says
        elif op[0] in ("drop_table", "drop_table_soft"):
            exists.discard(tuple(op[2][1:]))
    if len(ops) < 3:
        ops += [draw(_op) for _ in range(3 - len(ops))]
    return {"conns": conns, "preseed": draw(st.sampled_from([True, True, False])), "ops": ops}


def _spell(nm) -> str:
    lvl, d, s, t = nm
    return t if lvl == 1 else (f"{s}.{t}" if lvl == 2 else f"{d}.{s}.{t}")


class Model:
    def __init__(self):
        self.cat: dict[str, dict[str, dict[str, dict]]] = {}
        self.ctx: list[list] = []  # [db|None, schema|None] per connection
        self.next_tag = 1

    def resolve(self, ci: int, nm):
        """-> ('ok', db, schema, table) | ('90105',) | ('90106',)"""
        lvl, d, s, t = nm
        cdb, csc = self.ctx[ci]
        if lvl < 3 and cdb is None:
            return ("90105",)
        if lvl < 2 and csc is None:
            return ("90106",)
        return ("ok", d if lvl == 3 else cdb, s if lvl >= 2 else csc, t)

    def obj(self, r):
        return self.cat.get(r[1], {}).get(r[2], {}).get(r[3])


def run_history(case, ctx: Ctx) -> None:
    conn_args = case["conns"]
    if not 1 <= len(conn_args) <= 3 or any(d not in (None, *DBS) or sc not in (None, *SCHEMAS) for d, sc in conn_args):
        raise InvalidCase()
    fs = new_instance()
    try:
        m = Model()
        conns = []
        for d, s in conn_args:
            conns.append(fs.connect(d, s))
            if d:
                m.cat.setdefault(d, {})
                if s:
                    m.cat[d].setdefault(s, {})
            m.ctx.append([d, s if d else None] if d else [None, None])
            # a schema argument without a database gives no context at all
        if case.get("preseed"):
            # start from a populated catalogue: both databases with both schemas (created with fully qualified DDL)
            boot = fs.connect()
            bcur = boot.cursor()
            for d in DBS:
                if d not in m.cat:
                    bcur.execute(f"CREATE DATABASE {d}")
                    m.cat[d] = {}
                for s_ in SCHEMAS:
                    if s_ not in m.cat[d]:
                        bcur.execute(f"CREATE SCHEMA {d}.{s_}")
                        m.cat[d][s_] = {}
            ctx.cls("preseeded-catalogue")
        ncon = len(conns)
        lcur = fs.connect().cursor()  # a log table outside the databases the histories use (the scan below leaves LOGDB out)
        for sql in ("CREATE DATABASE LOGDB", "CREATE SCHEMA LOGDB.L", "CREATE TABLE LOGDB.L.CTXLOG (N INT, D VARCHAR, S VARCHAR, D2 VARCHAR, S2 VARCHAR)"):
            lcur.execute(sql)
        log_n = [0]
        why = ["connect"] * ncon  # how each connection came to its present context
        raw = fs.duck_conn.cursor()
        seen_ctx_change = False
        used_short_after_change = False

        def observers(ci: int, situation: str, dml: bool = True) -> None:
            """conn.database/schema, CURRENT_*() and the model agree."""
            c = conns[ci]
            mdb, msc = m.ctx[ci]
            if (c.database, c.schema) != (mdb, msc):
                # with a schema argument but no database, connect reports the requested schema name; that is C14's subject
                if not (mdb is None and conn_args[ci][0] is None and c.database is None):
                    ctx.fail(f"C03|context-disagrees|conn-attributes|{situation}", f"conn{ci}: conn.database/schema = {(c.database, c.schema)}, model {(mdb, msc)}")
            o = run(c.cursor(), "SELECT CURRENT_DATABASE(), CURRENT_SCHEMA()")
            if not o.ok:
                ctx.fail(f"C03|current-functions|raises|{o.etype}", f"{o}")
                return
            got = o.rows[0]
            # the same two functions inside DML (fully qualified target, so the statement needs no context of its own) answer the same
            log_n[0] += 1
            n_ = log_n[0]
            o2 = o3 = None
            if dml:
                o2 = run(c.cursor(), f"INSERT INTO LOGDB.L.CTXLOG (N, D, S) VALUES ({n_}, CURRENT_DATABASE(), CURRENT_SCHEMA())")
                o3 = run(c.cursor(), f"UPDATE LOGDB.L.CTXLOG SET D2 = CURRENT_DATABASE(), S2 = CURRENT_SCHEMA() WHERE N = {n_}")
            if not dml:
                pass
            elif not (o2.ok and o3.ok):
                ctx.fail(f"C03|current-functions|in-dml|raises|{(o3 if o2.ok else o2).etype}", f"conn{ci}: {o2} / {o3}")
            else:
                logged = raw.execute(f"select D, S, D2, S2 from LOGDB.L.CTXLOG where N = {n_}").fetchall()
                if logged != [(got[0], got[1], got[0], got[1])]:
                    ctx.fail(f"C03|current-functions|in-dml-differs-from-select|{situation}", f"conn{ci}: SELECT answers {got}, INSERT/UPDATE stored {logged}; model {(mdb, msc)}")
            if mdb is None:
                if got[0] is not None:
                    # the engine's default catalog is the listed finding; any other answer is some other session's context leaking in
                    ctx.fail("C03|current-functions|no-current-database" + ("" if got[0] == "memory" else f"|answers-a-user-database|{situation}"), f"conn{ci} has no current database but CURRENT_DATABASE() = {got[0]!r}")
            elif got[0] != mdb:
                ctx.fail(f"C03|current-functions|wrong-database|{situation}", f"conn{ci}: CURRENT_DATABASE() = {got[0]!r}, model {mdb!r}")
            if msc is None:
                if got[1] is not None:
                    ctx.fail("C03|current-functions|no-current-schema" + ("" if got[1] == "main" else f"|answers-a-user-schema|{situation}"), f"conn{ci} has no current schema but CURRENT_SCHEMA() = {got[1]!r}")
            elif got[1] != msc:
                ctx.fail(f"C03|current-functions|wrong-schema|{situation}", f"conn{ci}: CURRENT_SCHEMA() = {got[1]!r}, model {msc!r}")

        def scan(label: str) -> bool:
            """Every tagged row sits in the table the model says, and no table exists that the model lacks."""
            tabs = raw.execute(
                "select table_catalog, table_schema, table_name, table_type from information_schema.tables "
                "where table_catalog not in ('system','temp','memory','_fs_global','LOGDB') and table_schema <> 'information_schema'"
            ).fetchall()
            have = {(a, b, c): t for a, b, c, t in tabs}
            want = {(d, s, t): o["kind"] for d, ss in m.cat.items() for s, ts in ss.items() for t, o in ts.items()}
            ok = True
            for key in have.keys() - want.keys():
                ctx.fail(f"C03|extra-object|{'main-schema' if key[1] == 'main' else 'user-schema'}|{label}", f"{key} exists but the model has no such object; model objects {sorted(want)}")
                ok = False
            for key in want.keys() - have.keys():
                ctx.fail(f"C03|missing-object|{label}", f"{key} should exist; engine has {sorted(have)}")
                ok = False
            for (d, s, t), kind in want.items():
                if kind != "table" or (d, s, t) not in have:
                    continue
                rows = sorted(r[0] for r in raw.execute(f'select TAG from "{d}"."{s}"."{t}"').fetchall())
                if rows != sorted(m.cat[d][s][t]["rows"]):
                    ctx.fail(f"C03|rows-in-wrong-table|{label}", f"{d}.{s}.{t} holds {rows}, model {sorted(m.cat[d][s][t]['rows'])}")
                    ok = False
            return ok

        def expect_err(o, code: str, label: str, sql: str) -> None:
            if o.ok:
                ctx.fail(f"C03|no-context|not-rejected|want={code}|{label}", f"{sql} succeeded; session context {m.ctx}")
            elif str(o.errno) != code or o.sqlstate != "22000":
                ctx.fail(f"C03|no-context|wrong-errno|want={code}|got={o.errno}|{label}", f"{sql}: {o}; contexts {m.ctx}")

        for ci in range(ncon):
            observers(ci, "ctx=connect")

        for step_no, op in enumerate(case["ops"]):
            kind, ci = op[0], op[1]
            if not isinstance(ci, int):
                raise InvalidCase()
            ci = ci % ncon
            cur = conns[ci].cursor()
            cdb, csc = m.ctx[ci]
            if kind in ("create_db", "use_db") and op[2] not in DBS:
                raise InvalidCase()
            if kind in ("create_schema", "drop_schema", "use_schema") and (op[3] not in DBS or op[4] not in SCHEMAS):
                raise InvalidCase()
            if kind == "create_db":
                d = op[2]
                if d in m.cat:
                    continue
                o = run(cur, f"CREATE DATABASE {d}")
                if not o.ok:
                    ctx.fail(f"C03|create-database|raises|{o.etype}", f"{o}")
                    return
                m.cat[d] = {}
            elif kind in ("create_schema", "drop_schema", "use_schema"):
                qualified, d, s = op[2], op[3], op[4]
                sql_name = f"{d}.{s}" if qualified else s
                verb = {"create_schema": "CREATE SCHEMA", "drop_schema": "DROP SCHEMA", "use_schema": "USE SCHEMA"}[kind]
                sql = f"{verb} {sql_name}"
                tdb = d if qualified else cdb
                o = run(cur, sql)
                if tdb is None:
                    expect_err(o, "90105", f"{kind}|ctx={why[ci]}", sql)
                    ctx.cls("no-context-error")
                elif tdb not in m.cat or (kind != "create_schema" and s not in m.cat[tdb]) or (kind == "create_schema" and s in m.cat[tdb]):
                    if o.ok:
                        ctx.fail(f"C03|{kind}|invalid-accepted", f"{sql} with catalogue {sorted((d_, sorted(ss)) for d_, ss in m.cat.items())}")
                        return
                else:
                    if not o.ok:
                        ctx.fail(f"C03|{kind}|raises|{o.etype}|{'qualified' if qualified else 'unqualified'}", f"{sql} (context {m.ctx[ci]}): {o}")
                        return
                    if kind == "create_schema":
                        m.cat[tdb][s] = {}
                    elif kind == "drop_schema":
                        del m.cat[tdb][s]
                        for k in range(ncon):
                            if m.ctx[k] == [tdb, s]:
                                m.ctx[k][1] = None
                                why[k] = "dropped-current-schema" if k == ci else "current-schema-dropped-by-other-session"
                                if k == ci:
                                    ctx.cls("drop-current-schema")
                                    seen_ctx_change = True
                                else:
                                    ctx.cls("drop-other-sessions-current-schema")
                    else:
                        m.ctx[ci] = [tdb, s]
                        seen_ctx_change = True
                        ctx.cls("use-schema-qualified" if qualified else "use-schema")
                        why[ci] = "use-schema-qualified" if qualified else "use-schema"
            elif kind == "use_db":
                d = op[2]
                o = run(cur, f"USE DATABASE {d}")
                if d not in m.cat:
                    if o.ok:
                        ctx.fail("C03|use-database|missing-accepted", f"USE DATABASE {d}")
                        return
                else:
                    if not o.ok:
                        ctx.fail(f"C03|use-database|raises|{o.etype}", f"{o}")
                        return
                    # Snowflake's schema after USE DATABASE is not derivable here: the observers' own claim is taken,
                    # and everything afterwards must agree with it
                    claimed = conns[ci].schema
                    if claimed is not None and claimed not in m.cat[d]:
                        ctx.fail("C03|context-disagrees|after-use-database|claimed-schema-not-in-database", f"after USE DATABASE {d}, conn.schema = {claimed!r} but {d} has schemas {sorted(m.cat[d])}")
                        claimed = None
                        stale = True
                    else:
                        stale = False
                    m.ctx[ci] = [d, claimed]
                    seen_ctx_change = True
                    ctx.cls("use-database")
                    why[ci] = "use-database"
                    if stale:
                        # keep going with the engine's real position unknown: stop this history here
                        observers(ci, "ctx=" + why[ci])
                        scan("ctx=" + why[ci])
                        return
            elif kind == "current":
                pass
            else:
                names = [op[2]] + ([op[3]] if len(op) > 3 else [])
                for nm in names:
                    if not (isinstance(nm, list) and len(nm) == 4 and nm[0] in (1, 2, 3) and nm[1] in DBS and nm[2] in SCHEMAS and nm[3] in TABLES):
                        raise InvalidCase()
                res = [m.resolve(ci, nm) for nm in names]
                spell = [_spell(nm) for nm in names]
                if any(nm[0] < 3 for nm in names) and seen_ctx_change:
                    used_short_after_change = True
                if ncon > 1 and any(nm[0] < 3 for nm in names) and any(m.ctx[k] != m.ctx[ci] for k in range(ncon)):
                    ctx.cls("contexts-differ-at-unqualified-statement")
                    used_short_after_change = True
                tag = m.next_tag
                if kind == "create_table":
                    marker = f"M{step_no}"  # a column only this incarnation has
                    sql = f"CREATE TABLE {spell[0]} (TAG INT, {marker} INT)"
                elif kind == "create_table_soft":
                    marker = f"M{step_no}"
                    sql = f"CREATE TABLE IF NOT EXISTS {spell[0]} (TAG INT, {marker} INT)"
                elif kind == "drop_table_soft":
                    sql = f"DROP TABLE IF EXISTS {spell[0]}"
                elif kind == "drop_table":
                    sql = f"DROP TABLE {spell[0]}"
                elif kind == "create_view":
                    # view bodies use fully qualified names only (Snowflake resolves body names against the view's schema)
                    names[1][0] = 3
                    res[1] = m.resolve(ci, names[1])
                    spell[1] = _spell(names[1])
                    sql = f"CREATE VIEW {spell[0]} AS SELECT TAG FROM {spell[1]}"
                elif kind == "insert":
                    sql = f"INSERT INTO {spell[0]} (TAG) VALUES ({tag})"
                elif kind == "select":
                    sql = f"SELECT TAG FROM {spell[0]} ORDER BY TAG"
                elif kind == "update":
                    sql = f"UPDATE {spell[0]} SET TAG = TAG WHERE TAG > 0"
                elif kind == "delete":
                    sql = f"DELETE FROM {spell[0]} WHERE TAG < 0"
                elif kind == "describe":
                    sql = f"DESCRIBE TABLE {spell[0]}"
                elif kind == "join":
                    sql = f"SELECT count(*) FROM {spell[0]} a JOIN {spell[1]} b ON a.TAG = b.TAG"
                elif kind == "insert_select":
                    sql = f"INSERT INTO {spell[0]} (TAG) SELECT TAG + 1000 FROM {spell[1]}"
                elif kind == "ctas":
                    sql = f"CREATE TABLE {spell[0]} AS SELECT TAG + 2000 AS TAG FROM {spell[1]}"
                else:
                    raise InvalidCase()
                levels = "+".join(str(nm[0]) for nm in names)
                if kind in ("ctas", "create_view") and all(r[0] == "ok" for r in res) and (m.obj(res[1]) or {}).get("kind") == "view":
                    continue  # sources of CTAS / views are tables only (keeps the row model simple); not executed
                o = run(cur, sql)
                errs = [r[0] for r in res if r[0] != "ok"]
                if errs:
                    code = "90105" if "90105" in errs else "90106"
                    pos = f"first-table|ctx={why[ci]}" if res[0][0] != "ok" else "later-table"
                    expect_err(o, code, pos, f"{sql} (context {m.ctx[ci]})")
                    ctx.cls("no-context-error")
                else:
                    objs = [m.obj(r) for r in res]
                    tgt, src = objs[0], (objs[1] if len(objs) > 1 else None)
                    r0 = res[0]
                    schema_exists = r0[1] in m.cat and r0[2] in m.cat[r0[1]]
                    if kind in ("create_table_soft", "drop_table_soft"):
                        # IF [NOT] EXISTS: with the schema there the statement succeeds whether or not the object is; what the property says about
                        # them is the context rule above (they need a context like any other) and that they act on the resolved object only
                        if not schema_exists or (tgt is not None and tgt["kind"] != "table"):
                            if o.ok and kind == "create_table_soft" and not schema_exists:
                                ctx.fail(f"C03|resolved-elsewhere|statement-on-missing-object-succeeded|ctx={why[ci]}", f"{sql} (context {m.ctx[ci]}) succeeded but {r0[1:3]} does not exist; catalogue {_catalogue(m)}")
                                return
                            for k in range(ncon):
                                observers(k, "ctx=" + why[k], dml=(k == ci))
                            if not scan("ctx=" + why[ci]):
                                return
                            continue  # (whether DROP .. IF EXISTS of a name in a missing schema, or either statement on a name that is a view, is an error is not stated; the scan says nothing moved)
                        if not o.ok:
                            ctx.fail(f"C03|resolved-elsewhere|raises|errno={o.errno}|ctx={why[ci]}", f"{sql} (context {m.ctx[ci]}) should act on {res}: {o}; catalogue {_catalogue(m)}")
                            return
                        ctx.cls(f"stmt:{kind}:{'present' if tgt is not None else 'absent'}", f"levels:{levels}")
                        if kind == "create_table_soft" and tgt is None:
                            m.cat[r0[1]][r0[2]][r0[3]] = {"kind": "table", "rows": [], "marker": marker}
                        elif kind == "drop_table_soft" and tgt is not None:
                            del m.cat[r0[1]][r0[2]][r0[3]]
                        for k in range(ncon):
                            observers(k, "ctx=" + why[k], dml=(k == ci))
                        if not scan("ctx=" + why[ci]):
                            return
                        continue
                    if kind in ("create_table", "ctas", "create_view"):
                        valid = schema_exists and tgt is None and (kind == "create_table" or (src is not None and src["kind"] == "table"))
                    elif kind in ("drop_table", "insert", "update", "delete"):
                        valid = tgt is not None and tgt["kind"] == "table"
                    elif kind in ("select", "describe"):
                        valid = tgt is not None  # (DESCRIBE TABLE also describes a view)
                    elif kind == "join":
                        valid = tgt is not None and src is not None
                    elif kind == "insert_select":
                        valid = tgt is not None and tgt["kind"] == "table" and src is not None
                    else:
                        valid = False
                    def _dangling(ob) -> bool:
                        return bool(ob) and ob["kind"] == "view" and not ((m.cat.get(ob["of"][0], {}).get(ob["of"][1], {}).get(ob["of"][2]) or {}).get("kind") == "table")

                    if valid and not o.ok and any(_dangling(ob) for ob in objs):
                        # a view whose base table has been dropped since: the statement fails for that reason, not for how names resolve
                        ctx.cls("view-over-dropped-table")
                        continue
                    if not valid:
                        if o.ok:
                            ctx.fail(f"C03|resolved-elsewhere|statement-on-missing-object-succeeded|ctx={why[ci]}", f"{sql} (context {m.ctx[ci]}) succeeded but the model resolves it to {res} which is not usable; catalogue {_catalogue(m)}")
                            return
                    else:
                        if not o.ok:
                            ctx.fail(f"C03|resolved-elsewhere|raises|errno={o.errno}|ctx={why[ci]}", f"{sql} (context {m.ctx[ci]}) should act on {res}: {o}; catalogue {_catalogue(m)}")
                            return
                        ctx.cls(f"stmt:{kind}", f"levels:{levels}")
                        if kind == "create_table":
                            m.cat[r0[1]][r0[2]][r0[3]] = {"kind": "table", "rows": [], "marker": marker}
                        elif kind == "describe":
                            want_cols = ["TAG"] + ([tgt["marker"]] if tgt.get("marker") else [])
                            got_cols = [r[0] for r in o.rows]
                            if tgt["kind"] == "table" and got_cols != want_cols:
                                ctx.fail(f"C03|described-wrong-table|levels={levels}|ctx={why[ci]}", f"{sql} (context {m.ctx[ci]}) lists columns {got_cols}, the table it resolves to {res[0]} has {want_cols}; catalogue {_catalogue(m)}")
                        elif kind == "drop_table":
                            del m.cat[r0[1]][r0[2]][r0[3]]
                        elif kind == "create_view":
                            m.cat[r0[1]][r0[2]][r0[3]] = {"kind": "view", "of": res[1][1:]}
                        elif kind == "insert":
                            tgt["rows"].append(tag)
                            m.next_tag += 1
                        elif kind == "select":
                            want = sorted(tgt["rows"]) if tgt["kind"] == "table" else sorted((m.cat.get(tgt["of"][0], {}).get(tgt["of"][1], {}).get(tgt["of"][2]) or {"rows": []})["rows"])
                            if tgt["kind"] == "table" and [r[0] for r in o.rows] != want:
                                ctx.fail(f"C03|rows-from-wrong-table|select|levels={levels}", f"{sql} (context {m.ctx[ci]}) returned {o.rows}, model {want} from {res[0]}")
                        elif kind == "join":
                            pass
                        elif kind == "insert_select":
                            srows = src["rows"] if src["kind"] == "table" else (m.cat.get(src["of"][0], {}).get(src["of"][1], {}).get(src["of"][2]) or {"rows": []})["rows"]
                            tgt["rows"].extend([t + 1000 for t in srows])  # (a list: source and target may be the same table)
                        elif kind == "ctas":
                            m.cat[r0[1]][r0[2]][r0[3]] = {"kind": "table", "rows": [t + 2000 for t in src["rows"]]}
            # after every step: every connection's observers agree, rows are where the model says
            for k in range(ncon):
                observers(k, "ctx=" + why[k], dml=(k == ci))
            if not scan("ctx=" + why[ci]):
                return
        ctx.nontrivial = used_short_after_change
    finally:
        close_instance(fs)


def _catalogue(m: Model) -> str:
    return str({d: {s: sorted(ts) for s, ts in ss.items()} for d, ss in m.cat.items()})


PROP = Prop(
    id="C03",
    facets=[
        Facet(
            name="resolution_histories",
            strategy=_case,
            run=run_history,
            rule=(
                "Hypothesis draws 1-3 connections opened with (database, schema) arguments from {none, D1, D2} x {none, S1, S2} and 3-25/60 "
                "operations, each on a chosen connection: CREATE DATABASE, CREATE/DROP/USE SCHEMA (qualified or not), USE DATABASE, CREATE/DROP "
                "TABLE, CREATE VIEW, INSERT of a uniquely tagged row, SELECT, UPDATE, DELETE, DESCRIBE, JOIN, INSERT..SELECT, CTAS with every "
                "table named at qualification level 1, 2 or 3 (mixed levels inside multi-table statements) over 2 databases x 2 schemas x 2 "
                "table names. Oracle: catalogue model with one (database, schema) per connection; after every step conn.database/schema and "
                "CURRENT_DATABASE()/SCHEMA() of every connection agree with the model, and an engine-level scan finds every tagged row in "
                "exactly the table the model resolved it to and no unexpected table anywhere. Non-trivial: a context change (USE / drop of "
                "the current schema) followed by a statement with a shorter-than-full name, or connections whose contexts differ at such a statement."
            ),
            quick=250,
            thorough=2500,
            budget_quick=55,
        )
    ],
    assumptions=[
        "DROP DATABASE is excluded by construction (listed C04 finding: unsupported)",
        "the schema after USE DATABASE is taken from conn.schema (agreement oracle), as Snowflake's choice is not derivable offline",
        "view bodies use fully qualified names only",
    ],
)
