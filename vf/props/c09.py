"""C09 — metadata views always describe exactly the current user objects."""

from __future__ import annotations

from hypothesis import strategies as st

from vf.engine import Ctx, Facet, InvalidCase, Prop
from vf.util import close_instance, new_instance, run

DBS = ["DB1", "DB2"]
SCHEMAS = ["S1", "S2"]
NAMES = ["TA", "TB"]

# declared spelling -> (info-schema data_type, precision, scale, char length, DESCRIBE type string, description type_code)
TYPES = {
    "INT": ("NUMBER", 38, 0, None, "NUMBER(38,0)", 0),
    "BIGINT": ("NUMBER", 38, 0, None, "NUMBER(38,0)", 0),
    "SMALLINT": ("NUMBER", 38, 0, None, "NUMBER(38,0)", 0),
    "NUMBER": ("NUMBER", 38, 0, None, "NUMBER(38,0)", 0),
    "NUMBER(10,2)": ("NUMBER", 10, 2, None, "NUMBER(10,2)", 0),
    "NUMBER(38,10)": ("NUMBER", 38, 10, None, "NUMBER(38,10)", 0),
    "DECIMAL(5,0)": ("NUMBER", 5, 0, None, "NUMBER(5,0)", 0),
    "NUMBER(10)": ("NUMBER", 10, 0, None, "NUMBER(10,0)", 0),
    "NUMERIC(7)": ("NUMBER", 7, 0, None, "NUMBER(7,0)", 0),
    "FLOAT": ("FLOAT", None, None, None, "FLOAT", 1),
    "DOUBLE": ("FLOAT", None, None, None, "FLOAT", 1),
    "VARCHAR": ("TEXT", None, None, 16777216, "VARCHAR(16777216)", 2),
    "VARCHAR(20)": ("TEXT", None, None, 20, "VARCHAR(20)", 2),
    "VARCHAR(7)": ("TEXT", None, None, 7, "VARCHAR(7)", 2),
    "STRING": ("TEXT", None, None, 16777216, "VARCHAR(16777216)", 2),
    "TEXT": ("TEXT", None, None, 16777216, "VARCHAR(16777216)", 2),
    "BOOLEAN": ("BOOLEAN", None, None, None, "BOOLEAN", 13),
    "DATE": ("DATE", None, None, None, "DATE", 3),
    "TIME": ("TIME", None, None, None, "TIME(9)", 12),
    "TIMESTAMP_NTZ": ("TIMESTAMP_NTZ", None, None, None, "TIMESTAMP_NTZ(9)", 8),
    "TIMESTAMP": ("TIMESTAMP_NTZ", None, None, None, "TIMESTAMP_NTZ(9)", 8),
    "TIMESTAMP_TZ": ("TIMESTAMP_TZ", None, None, None, "TIMESTAMP_TZ(9)", 7),
    "BINARY": ("BINARY", None, None, None, "BINARY(8388608)", 11),
    "VARIANT": ("VARIANT", None, None, None, "VARIANT", 5),
}
TYPE_NAMES = sorted(TYPES)
TYPES["<int-literal>"] = ("NUMBER", 1, 0, None, "NUMBER(1,0)", 0)  # the type Snowflake gives `1 AS LIT` in a CTAS
COLNAMES = ["ID", "NAME", "AMT", "NOTE", "X", "Y"]

_TEXTY = ["VARCHAR", "VARCHAR(20)", "VARCHAR(7)", "STRING", "TEXT"]
_col = st.tuples(st.one_of(st.sampled_from(_TEXTY), st.sampled_from(TYPE_NAMES)), st.booleans()).map(list)  # (type, not null)
_cols = st.lists(_col, min_size=1, max_size=5)
_db = st.integers(0, 1)
_sc = st.integers(0, 1)
_nm = st.integers(0, 1)
_where = st.tuples(_db, _sc, _nm).map(list)
_comment = st.sampled_from([None, None, "first comment", "it's quoted", "second"])

_op = st.one_of(
    st.tuples(st.just("create"), _where, _cols, _comment, st.sampled_from(["plain", "plain", "or_replace", "transient", "cluster_by", "if_not_exists"])).map(list),
    st.tuples(st.just("create"), _where, _cols, _comment, st.sampled_from(["plain", "or_replace", "or_replace", "or_replace", "if_not_exists"])).map(list),
    st.tuples(st.just("create"), _where, _cols, _comment, st.sampled_from(["plain", "or_replace", "or_replace", "or_replace"])).map(list),
    st.tuples(st.just("ctas"), _where, _where, st.sampled_from(["star", "first-col", "with-literal"])).map(list),
    st.tuples(st.just("clone"), _where, _where).map(list),
    st.tuples(st.just("view"), _where, _where, st.booleans()).map(list),
    st.tuples(st.just("add_col"), _where, _col).map(list),
    st.tuples(st.just("drop_col"), _where).map(list),
    st.tuples(st.just("rename_col"), _where).map(list),
    st.tuples(st.just("rename"), _where, _nm).map(list),
    st.tuples(st.just("set_comment"), _where, st.sampled_from(["altered", "other", ""]), st.sampled_from(["alter", "comment_on"])).map(list),
    st.tuples(st.just("drop"), _where).map(list),
    st.tuples(st.just("drop"), _where).map(list),
    st.tuples(st.just("drop_schema"), _db, st.just(1)).map(list),
    st.tuples(st.just("create_schema"), _db, st.just(1)).map(list),
    st.tuples(st.just("create_user"), st.sampled_from(["alice", "bob"])).map(list),
)


@st.composite
def _case(draw, tier):
    """State-aware: the strategy keeps a rough picture of which names exist so that operations needing an existing object (CLONE, CTAS,
    views, ALTERs, RENAME, DROP) actually find one, and so that names get re-used after DROP / RENAME; a share of the operations is still
    drawn blindly (operations on missing objects are skipped by the interpreter)."""
    n = draw(st.integers(3, 14 if tier == "quick" else 40))
    exists: dict[tuple, str] = {}  # (db, schema, name) indices -> TABLE | VIEW
    gone: list[tuple] = []  # names that existed once
    s2 = {0: True, 1: True}
    ops: list = []

    def free_locs():
        return [(d, sc, nm) for d in (0, 1) for sc in (0, 1) for nm in (0, 1) if (d, sc, nm) not in exists and (sc == 0 or s2[d])]

    for _ in range(n):
        if draw(st.integers(0, 4)) == 0:
            ops.append(draw(_op))  # blind
            continue
        tables = sorted(k for k, v in exists.items() if v == "TABLE")
        menu = ["create", "create"]
        if gone:
            menu += ["recreate", "recreate"]
        if exists:
            menu += ["drop", "drop", "replace", "replace", "if_not_exists_on_existing"]
        if tables:
            menu += ["add_col", "drop_col", "rename_col", "rename", "set_comment", "set_comment"]
            if free_locs():
                menu += ["ctas", "clone", "view", "view"]
        menu += ["schema"]
        what = draw(st.sampled_from(menu))
        if what in ("create", "recreate"):
            cands = [g for g in gone if g not in exists and (g[1] == 0 or s2[g[0]])] if what == "recreate" else free_locs()
            if not cands:
                continue
            w = draw(st.sampled_from(cands))
            ops.append(["create", list(w), draw(_cols), draw(_comment), draw(st.sampled_from(["plain", "plain", "transient", "cluster_by", "if_not_exists"]))])
            exists[w] = "TABLE"
        elif what == "replace":
            cands = tables or sorted(exists)
            w = draw(st.sampled_from(cands))
            if exists[w] != "TABLE":
                continue
            ops.append(["create", list(w), draw(_cols), draw(_comment), "or_replace"])
        elif what == "if_not_exists_on_existing":
            if not tables:
                continue
            w = draw(st.sampled_from(tables))
            ops.append(["create", list(w), draw(_cols), draw(_comment), "if_not_exists"])
        elif what == "drop":
            w = draw(st.sampled_from(sorted(exists)))
            ops.append(["drop", list(w)])
            del exists[w]
            gone.append(w)
        elif what in ("ctas", "clone", "view"):
            src = draw(st.sampled_from(tables))
            w = draw(st.sampled_from(free_locs()))
            if what == "ctas":
                ops.append(["ctas", list(w), list(src), draw(st.sampled_from(["star", "first-col", "with-literal"]))])
            elif what == "clone":
                ops.append(["clone", list(w), list(src)])
            else:
                ops.append(["view", list(w), list(src), draw(st.booleans())])
            exists[w] = "VIEW" if what == "view" else "TABLE"
        elif what == "rename":
            w = draw(st.sampled_from(tables))
            other = (w[0], w[1], 1 - w[2])
            ops.append(["rename", list(w), other[2]])
            if other not in exists:
                exists[other] = exists.pop(w)
                gone.append(w)
        elif what == "add_col":
            ops.append(["add_col", list(draw(st.sampled_from(tables))), draw(_col)])
        elif what in ("drop_col", "rename_col"):
            ops.append([what, list(draw(st.sampled_from(tables)))])
        elif what == "set_comment":
            ops.append(["set_comment", list(draw(st.sampled_from(tables))), draw(st.sampled_from(["altered", "other", ""])), draw(st.sampled_from(["alter", "comment_on"]))])
        else:
            d = draw(_db)
            if s2[d]:
                ops.append(["drop_schema", d, 1])
                for k in [k for k in exists if k[0] == d and k[1] == 1]:
                    del exists[k]
                    gone.append(k)
            else:
                ops.append(["create_schema", d, 1])
            s2[d] = not s2[d]
    if len(ops) < 3:
        ops += [draw(_op) for _ in range(3 - len(ops))]
    return {"ops": ops, "observe_every": draw(st.sampled_from([1, 1, 2]))}


class T:
    def __init__(self, kind, cols, comment, how):
        self.broken = False  # a view whose base table was dropped / replaced / renamed
        self.of = None
        self.kind = kind  # TABLE | VIEW
        self.cols = cols  # list of [name, type, notnull, length-known?]
        self.comment = comment
        self.how = how  # provenance of the current incarnation: create / replace / recreate / rename / clone / ctas ...


def _fq(w) -> tuple[str, str, str]:
    return DBS[w[0]], SCHEMAS[w[1]], NAMES[w[2]]


def run_history(case, ctx: Ctx) -> None:
    fs = new_instance()
    try:
        conns = {d: fs.connect(d, "S1") for d in DBS}
        curs = {d: c.cursor() for d, c in conns.items()}
        for d in DBS:
            curs[d].execute(f"CREATE SCHEMA {d}.S2")
        cat: dict[tuple, T] = {}
        schemas = {(d, s) for d in DBS for s in SCHEMAS}
        dropped_names: set[tuple] = set()
        ghost_comments: dict[tuple, set] = {}  # comments recorded under a name by earlier incarnations
        ghost_lengths: dict[tuple, set] = {}  # (column, length) declared under a name by earlier incarnations
        reused = False

        def bury(k: tuple, t: "T") -> None:
            """The incarnation t of name k ceases to exist (dropped, replaced, renamed away)."""
            if t.comment is not None:
                ghost_comments.setdefault(k, set()).add(t.comment)
            for cn, ct, _nn in t.cols:
                if TYPES[ct][0] == "TEXT":
                    ghost_lengths.setdefault(k, set()).add((cn, TYPES[ct][3]))
            for k2, v in cat.items():
                if v.kind == "VIEW" and getattr(v, "of", None) == k:
                    v.broken = True
        users = 0
        step = 0

        def colsql(cols) -> str:
            return ", ".join(f"{COLNAMES[i]} {t}{' NOT NULL' if nn else ''}" for i, (t, nn) in enumerate(cols))

        def mk_cols(cols) -> list:
            return [[COLNAMES[i], t, bool(nn)] for i, (t, nn) in enumerate(cols)]

        def observe(label: str) -> None:
            for d in DBS:
                cur = curs[d]
                mine = {k: v for k, v in cat.items() if k[0] == d}
                # 1. information_schema.tables, queried from database d
                o = run(cur, "SELECT table_catalog, table_schema, table_name, table_type, comment FROM information_schema.tables")
                if not o.ok:
                    ctx.fail(f"C09|info.tables|raises|{o.etype}", f"{o}")
                    return
                seen = {}
                for c_, s_, n_, ty, cm in o.rows:
                    if s_.lower() == "information_schema" and not n_.lower().startswith("_fs_"):
                        continue  # the information_schema's own views
                    if (c_, s_, n_) in seen:
                        ctx.fail("C09|info.tables|duplicate-row", f"{(c_, s_, n_)}")
                    seen[(c_, s_, n_)] = (ty, cm)
                for k in seen.keys() - mine.keys():
                    if k[2].lower().startswith("_fs_") or k[0].lower().startswith("_fs_"):
                        ctx.fail(f"C09|info.tables|extra-object|internal:{k[2]}", f"from {d}: {k}")
                    elif k[0] != d and k in cat:
                        ctx.fail("C09|info.tables|extra-object|other-database", f"information_schema.tables of {d} lists {k}")
                    elif k in dropped_names:
                        ctx.fail("C09|info.tables|extra-object|dropped", f"from {d}: {k} was dropped")
                    else:
                        ctx.fail(f"C09|info.tables|extra-object|unknown:{k[1]}.{k[2]}", f"from {d}: {k}")
                for k in mine.keys() - seen.keys():
                    ctx.fail(f"C09|info.tables|missing-object|how={mine[k].how}", f"from {d}: {k} missing")
                for k in mine.keys() & seen.keys():
                    ty, cm = seen[k]
                    want_ty = "BASE TABLE" if mine[k].kind == "TABLE" else "VIEW"
                    if ty != want_ty:
                        ctx.fail("C09|info.tables|wrong-type", f"{k}: {ty}")
                    if mine[k].kind == "TABLE" and cm != mine[k].comment:
                        if cm is not None and cm in ghost_comments.get(k, ()) and (mine[k].comment is None or "rename" in mine[k].how.split("+")):
                            # (a renamed table loses its own comment - listed - and then shows whatever an earlier holder of the new name left behind)
                            mode = "comment-of-earlier-incarnation"  # the side table was not cleaned when the name was dropped/replaced/renamed
                        elif cm is None and "rename" in mine[k].how.split("+"):
                            mode = "comment-lost-by-rename"
                        elif cm is None:
                            mode = f"comment-lost|how={mine[k].how}"
                        else:
                            mode = f"comment-wrong|how={mine[k].how}"
                        ctx.fail(f"C09|info.tables|{mode}", f"{k}: comment {cm!r}, most recently declared {mine[k].comment!r} ({label})")
                # 2. information_schema.columns
                o = run(cur, "SELECT table_catalog, table_schema, table_name, column_name, ordinal_position, is_nullable, data_type, character_maximum_length, numeric_precision, numeric_scale FROM information_schema.columns ORDER BY 1, 2, 3, 5")
                if not o.ok:
                    ctx.fail(f"C09|info.columns|raises|{o.etype}", f"{o}")
                    return
                bytab: dict[tuple, list] = {}
                for r in o.rows:
                    if r[1].lower() == "information_schema":
                        continue
                    bytab.setdefault(tuple(r[:3]), []).append(r[3:])
                for k in bytab.keys() - mine.keys():
                    if k[2].lower().startswith("_fs_") or k[0].lower().startswith("_fs_"):
                        ctx.fail(f"C09|info.columns|extra-object|internal:{k[2]}", f"from {d}: {k}")
                    elif k[0] != d and k in cat:
                        ctx.fail("C09|info.columns|extra-object|other-database", f"information_schema.columns of {d} lists {k}")
                    else:
                        ctx.fail(f"C09|info.columns|extra-object|{'dropped' if k in dropped_names else 'unknown'}", f"from {d}: {k}")
                for k, t in mine.items():
                    got = bytab.get(k)
                    if t.broken:
                        continue
                    if got is None:
                        ctx.fail(f"C09|info.columns|missing-object|how={t.how}", f"{k}")
                        continue
                    if [g[0] for g in got] != [c[0] for c in t.cols]:
                        ctx.fail(f"C09|info.columns|column-order-or-names|how={t.how}", f"{k}: {[g[0] for g in got]} model {[c[0] for c in t.cols]}")
                        continue
                    for g, (cn, ct, nn) in zip(got, t.cols):
                        dt_, prec, scale, ln, _desc, _tc = TYPES[ct]
                        if g[3] != dt_:
                            ctx.fail(f"C09|info.columns|wrong-data_type|declared={ct}|how={t.how}", f"{k}.{cn}: {g[3]} want {dt_}")
                        elif dt_ == "NUMBER" and (g[5], g[6]) != (prec, scale):
                            ctx.fail(f"C09|info.columns|wrong-precision-scale|declared={ct}|how={t.how}", f"{k}.{cn}: {(g[5], g[6])} want {(prec, scale)}")
                        elif dt_ == "TEXT" and g[4] != ln and t.kind == "TABLE":
                            records_lengths = not any(x in t.how for x in ("clone", "ctas", "rename"))  # explicit DDL re-declares them
                            if g[4] is not None and (cn, g[4]) in ghost_lengths.get(k, ()) and not records_lengths:
                                mode = "of-earlier-incarnation"
                            else:
                                mode = f"{'lost' if g[4] is None else 'wrong'}|how={t.how}"
                            ctx.fail(f"C09|info.columns|varchar-length-{mode}", f"{k}.{cn} declared {ct}: character_maximum_length {g[4]} want {ln}")
                        if t.kind == "TABLE" and g[2] != ("NO" if nn else "YES"):
                            ctx.fail(f"C09|info.columns|wrong-nullability|how={t.how}", f"{k}.{cn}: is_nullable {g[2]} declared NOT NULL={nn}")
                # 3. information_schema.views / databases
                o = run(cur, "SELECT table_catalog, table_schema, table_name FROM information_schema.views")
                if o.ok:
                    got = {tuple(r) for r in o.rows}
                    want = {k for k, v in mine.items() if v.kind == "VIEW"}
                    if got != want:
                        ctx.fail("C09|info.views|differs", f"from {d}: {sorted(got)} model {sorted(want)}")
                else:
                    ctx.fail(f"C09|info.views|raises|{o.etype}", f"{o}")
                # the same view of the *other* database, read through a database-qualified name
                for d2 in DBS:
                    if d2 == d:
                        continue
                    o = run(cur, f"SELECT table_catalog, table_schema, table_name FROM {d2}.information_schema.views")
                    if o.ok:
                        got = {tuple(r) for r in o.rows}
                        want = {k for k, v in cat.items() if k[0] == d2 and v.kind == "VIEW"}
                        if got != want:
                            ctx.fail("C09|info.views|differs|qualified-other-database", f"{d2}.information_schema.views read from {d}: {sorted(got)} model {sorted(want)}")
                    else:
                        ctx.fail(f"C09|info.views|raises|{o.etype}|qualified-other-database", f"{o}")
                o = run(cur, "SELECT database_name FROM information_schema.databases")
                if not o.ok or sorted(r[0] for r in o.rows) != DBS:
                    ctx.fail("C09|info.databases|differs", f"{o}")
                # 4. DESCRIBE + description of SELECT *
                for k, t in mine.items():
                    if t.broken:
                        continue
                    fq = ".".join(k)
                    o = run(cur, f"DESCRIBE {'TABLE' if t.kind == 'TABLE' else 'VIEW'} {fq}")
                    if not o.ok:
                        ctx.fail(f"C09|describe|raises|{o.etype}|how={t.how}", f"{fq}: {o}")
                        continue
                    got = [(r[0], r[1], r[3]) for r in o.rows]
                    want = [(cn, TYPES[ct][4] if t.kind == "TABLE" or TYPES[ct][0] != "TEXT" else None, ("N" if nn else "Y") if t.kind == "TABLE" else None) for cn, ct, nn in t.cols]
                    if [g[0] for g in got] != [w[0] for w in want]:
                        ctx.fail(f"C09|describe|column-order-or-names|how={t.how}", f"{fq}: {got}")
                        continue
                    for g, w, (cn, ct, nn) in zip(got, want, t.cols):
                        if w[1] is not None and g[1] != w[1]:
                            if TYPES[ct][0] == "TEXT" and g[1].startswith("VARCHAR("):
                                gl = int(g[1][8:-1])
                                if (cn, gl) in ghost_lengths.get(k, ()) and any(x in t.how for x in ("clone", "ctas", "rename")):
                                    what = "varchar-length-of-earlier-incarnation"
                                else:
                                    what = f"varchar-length-{'lost' if gl == 16777216 else 'wrong'}|how={t.how}"
                            else:
                                what = f"wrong-type|declared={ct}|how={t.how}"
                            ctx.fail(f"C09|describe|{what}", f"{fq}.{cn}: {g[1]} want {w[1]}")
                        if w[2] is not None and g[2] != w[2]:
                            ctx.fail(f"C09|describe|wrong-nullability|how={t.how}", f"{fq}.{cn}: null? {g[2]}")
                    o = run(cur, f"SELECT * FROM {fq}")
                    if not o.ok:
                        ctx.fail(f"C09|select-star|raises|{o.etype}|how={t.how}", f"{fq}: {o}")
                        continue
                    try:
                        desc = cur.description
                    except Exception as e:
                        ctx.fail(f"C09|select-star|description-raises|{type(e).__name__}|how={t.how}", f"{fq}: {e}")
                        continue
                    if [c.name for c in desc] != [c[0] for c in t.cols]:
                        ctx.fail(f"C09|select-star|names|how={t.how}", f"{fq}: {[c.name for c in desc]}")
                    else:
                        for c, (cn, ct, nn) in zip(desc, t.cols):
                            dt_, prec, scale, ln, _d, tc = TYPES[ct]
                            if c.type_code != tc:
                                ctx.fail(f"C09|select-star|type_code|declared={ct}", f"{fq}.{cn}: type_code {c.type_code} want {tc}")
                            elif tc == 0 and (c.precision, c.scale) != (prec, scale):
                                ctx.fail(f"C09|select-star|precision-scale|declared={ct}", f"{fq}.{cn}: {(c.precision, c.scale)} want {(prec, scale)}")
                # 5. SHOW in the three scopes
                def show(sql, want: set, what: str):
                    o = run(cur, sql)
                    if not o.ok:
                        ctx.fail(f"C09|{what}|raises|{o.etype}", f"{sql}: {o}")
                        return
                    got = [(r[3], r[4], r[1], r[2]) for r in o.rows]
                    gs = set(got)
                    if len(got) != len(gs):
                        ctx.fail(f"C09|{what}|duplicate-row", f"{sql}: {got}")
                    for x in gs - want:
                        if x[2].lower().startswith("_fs_") or x[0].lower().startswith("_fs_"):
                            ctx.fail(f"C09|{what}|extra-object|internal:{x[2]}", f"{sql}: {x}")
                        elif x[1].lower() == "information_schema" and "objects" in what and x[2] in ("databases", "views"):
                            pass  # pinned by the repo's tests
                        else:
                            ctx.fail(f"C09|{what}|extra-object|{'dropped' if (x[0], x[1], x[2]) in dropped_names else 'other'}", f"{sql}: {x} not in model {sorted(want)}")
                    for x in want - gs:
                        ctx.fail(f"C09|{what}|missing-object", f"{sql}: {x} missing; got {sorted(gs)}")

                allt = {(k[0], k[1], k[2], "TABLE") for k, v in cat.items() if v.kind == "TABLE"}
                allo = {(k[0], k[1], k[2], v.kind) for k, v in cat.items()}
                show("SHOW TABLES IN ACCOUNT", allt, "show-tables-account")
                show(f"SHOW TERSE TABLES IN DATABASE {d}", {x for x in allt if x[0] == d}, "show-tables-database")
                show(f"SHOW OBJECTS IN DATABASE {d}", {x for x in allo if x[0] == d}, "show-objects-database")
                for s_ in SCHEMAS:
                    if (d, s_) in schemas:
                        show(f"SHOW TABLES IN SCHEMA {d}.{s_}", {x for x in allt if x[:2] == (d, s_)}, "show-tables-schema")
                        show(f"SHOW TERSE OBJECTS IN {d}.{s_}", {x for x in allo if x[:2] == (d, s_)}, "show-objects-schema")
                o = run(cur, f"SHOW SCHEMAS IN DATABASE {d}")
                if o.ok:
                    got = {r[1] for r in o.rows if r[1].lower() != "information_schema"}
                    want = {s_ for (d_, s_) in schemas if d_ == d}
                    if got != want:
                        ctx.fail("C09|show-schemas|differs", f"{d}: {sorted(got)} model {sorted(want)}")
                else:
                    ctx.fail(f"C09|show-schemas|raises|{o.etype}", f"{o}")
                o = run(cur, "SHOW PRIMARY KEYS")
                if not o.ok:
                    ctx.fail(f"C09|show-primary-keys|raises|{o.etype}", f"{o}")
                elif any(str(r[3]).lower().startswith("_fs_") for r in o.rows):
                    ctx.fail("C09|show-primary-keys|extra-object|internal", f"{o.rows}")

        every = case.get("observe_every", 1)
        if every not in (1, 2):
            raise InvalidCase()
        for op in case["ops"]:
            kind = op[0]
            step += 1
            if kind == "create_user":
                o = run(curs["DB1"], f"CREATE USER {op[1]}{users}")
                users += 1
                ctx.cls("op:create_user")
            elif kind in ("drop_schema", "create_schema"):
                d, s_ = DBS[op[1]], SCHEMAS[op[2]]
                if kind == "drop_schema":
                    if (d, s_) not in schemas:
                        continue
                    o = run(curs[d], f"DROP SCHEMA {d}.{s_}")
                    if not o.ok:
                        ctx.fail(f"C09|drop-schema|raises|{o.etype}", f"{o}")
                        return
                    schemas.discard((d, s_))
                    for k in [k for k in cat if k[:2] == (d, s_)]:
                        dropped_names.add(k)
                        t_ = cat.pop(k)
                        bury(k, t_)
                else:
                    if (d, s_) in schemas:
                        continue
                    o = run(curs[d], f"CREATE SCHEMA {d}.{s_}")
                    if not o.ok:
                        ctx.fail(f"C09|create-schema|raises|{o.etype}", f"{o}")
                        return
                    schemas.add((d, s_))
                ctx.cls(f"op:{kind}")
            else:
                w = op[1]
                k = _fq(w)
                if k[:2] not in schemas:
                    continue
                cur = curs[k[0]]
                fq = ".".join(k)
                have = cat.get(k)
                again = k in dropped_names
                if kind == "create":
                    cols, comment, flavour = op[2], op[3], op[4]
                    if not cols or any(t not in TYPE_NAMES for t, _ in cols) or len(cols) > len(COLNAMES) or flavour not in ("plain", "or_replace", "transient", "cluster_by", "if_not_exists"):
                        raise InvalidCase()
                    cm = f" COMMENT = '{comment.replace(chr(39), chr(39) * 2)}'" if comment is not None else ""
                    if flavour == "or_replace":
                        if have and have.kind == "VIEW":
                            continue
                        sql, how = f"CREATE OR REPLACE TABLE {fq} ({colsql(cols)}){cm}", ("replace" if have else ("recreate" if again else "create"))
                    elif have:
                        if flavour != "if_not_exists" or have.kind != "TABLE":
                            continue  # (a table definition over an existing view's name is not this property's subject)
                        o = run(cur, f"CREATE TABLE IF NOT EXISTS {fq} ({colsql(cols)}){cm}")
                        if not o.ok:
                            ctx.fail(f"C09|create-if-not-exists|raises|{o.etype}", f"{o}")
                            return
                        ctx.cls("op:create-if-not-exists-on-existing")
                        if "if-not-exists-on-existing" not in have.how:
                            have.how += "+if-not-exists-on-existing"  # nothing may change; provenance label for the signature
                        # (listed finding) the ignored definition's comment/lengths get recorded; later incarnations may inherit them
                        if comment is not None:
                            ghost_comments.setdefault(k, set()).add(comment)
                        for i_, (t_, _nn) in enumerate(cols):
                            if TYPES[t_][0] == "TEXT":
                                ghost_lengths.setdefault(k, set()).add((COLNAMES[i_], TYPES[t_][3]))
                        if step % every == 0:
                            observe("after IF NOT EXISTS on existing")
                        continue
                    elif flavour == "transient":
                        sql, how = f"CREATE TRANSIENT TABLE {fq} ({colsql(cols)}){cm}", ("recreate" if again else "create") + "-transient"
                    elif flavour == "cluster_by":
                        sql, how = f"CREATE TABLE {fq} ({colsql(cols)}) CLUSTER BY ({COLNAMES[0]}){cm}", ("recreate" if again else "create") + "-cluster-by"
                    elif flavour == "if_not_exists":
                        sql, how = f"CREATE TABLE IF NOT EXISTS {fq} ({colsql(cols)}){cm}", "recreate" if again else "create"
                    else:
                        sql, how = f"CREATE TABLE {fq} ({colsql(cols)}){cm}", "recreate" if again else "create"
                    new = T("TABLE", mk_cols(cols), comment, how)
                elif kind in ("ctas", "clone", "view"):
                    src = _fq(op[2])
                    s = cat.get(src)
                    if s is None or have is not None or s.kind != "TABLE" or src == k:
                        continue
                    sfq = ".".join(src)
                    if kind == "clone":
                        sql, new = f"CREATE TABLE {fq} CLONE {sfq}", T("TABLE", [list(c) for c in s.cols], None, "clone")
                    elif kind == "ctas":
                        mode = op[3]
                        if mode == "star":
                            sql, ncols = f"CREATE TABLE {fq} AS SELECT * FROM {sfq}", [[c[0], c[1], False] for c in s.cols]
                        elif mode == "first-col":
                            sql, ncols = f"CREATE TABLE {fq} AS SELECT {s.cols[0][0]} FROM {sfq}", [[s.cols[0][0], s.cols[0][1], False]]
                        else:
                            sql, ncols = f"CREATE TABLE {fq} AS SELECT {s.cols[0][0]}, 1 AS LIT FROM {sfq}", [[s.cols[0][0], s.cols[0][1], False], ["LIT", "<int-literal>", False]]
                        new = T("TABLE", ncols, None, f"ctas-{mode}")
                    else:
                        sql, new = f"CREATE {'OR REPLACE ' if op[3] else ''}VIEW {fq} AS SELECT * FROM {sfq}", T("VIEW", [[c[0], c[1], False] for c in s.cols], None, "view")
                        new.of = src
                elif kind in ("add_col", "drop_col", "rename_col", "rename", "set_comment", "drop"):
                    if have is None:
                        continue
                    if kind == "drop":
                        sql, new = f"DROP {have.kind} {fq}", None
                    elif have.kind != "TABLE":
                        continue
                    elif kind == "add_col":
                        t_, nn = op[2]
                        free = [c for c in COLNAMES if c not in [x[0] for x in have.cols]]
                        if not free or t_ not in TYPES:
                            continue
                        sql = f"ALTER TABLE {fq} ADD COLUMN {free[0]} {t_}"
                        new = T("TABLE", have.cols + [[free[0], t_, False]], have.comment, have.how + "+add-col")
                        for v in cat.values():
                            if v.kind == "VIEW" and v.of == k:
                                v.broken = True
                    elif kind == "drop_col":
                        if len(have.cols) < 2:
                            continue
                        sql = f"ALTER TABLE {fq} DROP COLUMN {have.cols[-1][0]}"
                        new = T("TABLE", have.cols[:-1], have.comment, have.how)
                    elif kind == "rename_col":
                        free = [c for c in COLNAMES if c not in [x[0] for x in have.cols]]
                        if not free:
                            continue
                        sql = f"ALTER TABLE {fq} RENAME COLUMN {have.cols[0][0]} TO {free[-1]}"
                        new = T("TABLE", [[free[-1], have.cols[0][1], have.cols[0][2]]] + have.cols[1:], have.comment, have.how + ("" if "+rename-col" in have.how else "+rename-col"))
                    elif kind == "rename":
                        k2 = (k[0], k[1], NAMES[op[2]])
                        if k2 in cat or k2 == k:
                            continue
                        sql = f"ALTER TABLE {fq} RENAME TO {'.'.join(k2)}"
                        o = run(cur, sql)
                        if not o.ok:
                            ctx.fail(f"C09|rename|raises|{o.etype}", f"{sql}: {o}")
                            return
                        del cat[k]
                        bury(k, have)
                        cat[k2] = T("TABLE", have.cols, have.comment, have.how + ("" if "rename" in have.how.split("+") else "+rename"))
                        dropped_names.add(k)
                        reused = reused or k2 in dropped_names
                        dropped_names.discard(k2)
                        ctx.cls("op:rename")
                        if step % every == 0:
                            observe(sql)
                        continue
                    else:
                        text, via = op[2], op[3]
                        sql = f"ALTER TABLE {fq} SET COMMENT = '{text}'" if via == "alter" else f"COMMENT ON TABLE {fq} IS '{text}'"
                        new = T("TABLE", have.cols, text, (have.how + "+set-comment") if "+set-comment" not in have.how else have.how)
                else:
                    raise InvalidCase()
                o = run(cur, sql)
                if not o.ok:
                    ctx.fail(f"C09|{kind}|raises|{o.etype}", f"{sql}: {o}")
                    return
                ctx.cls(f"op:{kind}")
                if have is not None and (new is None or kind in ("create", "view")):
                    bury(k, have)
                if kind in ("drop_col", "rename_col") and have is not None:
                    gone = have.cols[-1] if kind == "drop_col" else have.cols[0]
                    if TYPES[gone[1]][0] == "TEXT":
                        ghost_lengths.setdefault(k, set()).add((gone[0], TYPES[gone[1]][3]))
                    for v in cat.values():
                        if v.kind == "VIEW" and v.of == k:
                            v.broken = True
                if new is None:
                    del cat[k]
                    dropped_names.add(k)
                else:
                    if kind in ("create", "ctas", "clone", "view") and (again or (have is not None)):
                        reused = True
                        ctx.cls("name-reused")
                    cat[k] = new
                    dropped_names.discard(k)
                if any(k2[2] == k[2] and k2 != k for k2 in cat):
                    ctx.cls("same-name-in-two-schemas")
                    reused = True
            if step % every == 0:
                observe(repr(op))
        observe("end")
        ctx.nontrivial = reused
    finally:
        close_instance(fs)


PROP = Prop(
    id="C09",
    facets=[
        Facet(
            name="ddl_histories",
            strategy=_case,
            run=run_history,
            rule=(
                "Hypothesis draws 3-14/40 DDL operations over 2 databases x 2 schemas x 2 names, state-aware (operations that need an existing object pick one that exists; dropped names are re-created; a fifth of the operations is drawn blindly): CREATE [OR REPLACE | IF NOT EXISTS | TRANSIENT] "
                "TABLE [CLUSTER BY] with 1-5 columns from 22 type spellings (NOT NULL, VARCHAR lengths, COMMENT), CTAS (star / one column / "
                "with literal), CLONE, CREATE [OR REPLACE] VIEW, ALTER ADD/DROP/RENAME COLUMN, RENAME TO, SET COMMENT, COMMENT ON, DROP, "
                "DROP/CREATE SCHEMA, CREATE USER. After every step (or every 2nd) every observer is read from both databases: "
                "information_schema.tables/columns/views/databases, DESCRIBE of every object, description of SELECT *, SHOW [TERSE] "
                "TABLES/OBJECTS in account/database/schema, SHOW SCHEMAS, SHOW PRIMARY KEYS - compared with a catalogue model holding the "
                "attributes as most recently declared. Non-trivial: a name re-used after DROP / OR REPLACE / RENAME, or the same name in two schemas."
            ),
            quick=40,
            thorough=500,
            budget_quick=70,
        )
    ],
    assumptions=[
        "OBJECT/ARRAY columns are not generated (the repo pins VARIANT for all semi-structured types)",
        "information_schema's own views 'databases' and 'views' are accepted in SHOW OBJECTS (pinned by the repo's tests)",
        "internal_size of text columns in cursor.description is not asserted (documented TODO in the repo)",
    ],
)
