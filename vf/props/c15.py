"""C15 — session variables substitute exactly, per connection."""

from __future__ import annotations

from decimal import Decimal

import snowflake.connector.errors
from hypothesis import strategies as st

from vf.engine import Ctx, Facet, InvalidCase, Prop
from vf.util import close_instance, dec, enc, etype_name, new_instance, run, same_value, snapshot, sql_str

# names built to collide: prefixes of each other, case variants
NAMES = ["v", "v1", "v10", "v1a", "var", "VAR", "Var1", "a_b", "a", "_x", "d", "dt", "n", "nul", "x9"]
STR_SPECIALS = ["\\", "\\1", "\\g<0>", "'", "%", "%s", ".*", "(", "[a-z]+", "$", "$v1", "$$", ";", "--", "?", "\n", "a|b", "^", "{1}"]


def _mask(name: str, mask: int) -> str:
    return "".join(ch.upper() if (mask >> i) & 1 else ch.lower() for i, ch in enumerate(name))


_value = st.one_of(
    st.builds(lambda v: {"k": "int", "v": v}, st.integers(-(2**40), 2**40)),
    st.builds(lambda n, s: {"k": "dec", "v": str(Decimal(n).scaleb(-s))}, st.integers(-99999, 99999), st.integers(1, 4)),
    st.builds(
        lambda parts: {"k": "str", "v": "".join(parts)},
        st.lists(st.one_of(st.sampled_from(STR_SPECIALS), st.text(alphabet="abcV1 _", max_size=4)), max_size=3),
    ),
    st.builds(lambda a, b: {"k": "expr", "v": [a, b]}, st.integers(-50, 50), st.integers(0, 50)),
    st.builds(lambda b: {"k": "bool", "v": b}, st.booleans()),
)

_ci = st.integers(0, 1)
_name = st.integers(0, len(NAMES) - 1)
_mk = st.integers(0, 255)

_op = st.one_of(
    st.tuples(st.just("set"), _ci, _ci, _name, _mk, _value).map(list),
    st.tuples(st.just("set"), _ci, _ci, _name, _mk, _value).map(list),
    st.tuples(st.just("unset"), _ci, _ci, _name, _mk).map(list),
    st.tuples(st.just("use"), _ci, _ci, st.lists(st.tuples(_name, _mk).map(list), min_size=1, max_size=4), st.sampled_from(["plain", "paren", "adjacent", "where", "param"])).map(list),
    st.tuples(st.just("use"), _ci, _ci, st.lists(st.tuples(_name, _mk).map(list), min_size=1, max_size=4), st.sampled_from(["plain", "paren", "adjacent", "where", "param"])).map(list),
    st.tuples(st.just("repeat"), _ci, _ci).map(list),
    st.tuples(st.just("repeat"), _ci, _ci).map(list),
    st.tuples(st.just("script"), _ci, _ci, _name, _mk, _value, st.sampled_from(["set-use", "set-set-use", "unset-use", "use-only"])).map(list),
    st.tuples(st.just("literal"), _ci, _ci, st.sampled_from(["dollar-quoted", "plain-no-dollar", "dollar-in-literal", "dollar-digit-in-literal", "double-dollar-in-literal"]), st.text(alphabet="abc 1", max_size=4)).map(list),
)


@st.composite
def _case(draw, tier):
    n = 20 if tier == "quick" else 40
    # a small per-case pool of names (biased to prefix/case families) so that SET / use / UNSET / re-use hit the same name
    pool = draw(st.lists(st.integers(0, len(NAMES) - 1), min_size=2, max_size=4, unique=True))
    return {"pool": pool, "ops": draw(st.lists(_op, min_size=4, max_size=n))}


def _sql_value(v: dict) -> tuple[str, object]:
    k = v["k"]
    if k == "int":
        return str(v["v"]), v["v"]
    if k == "dec":
        return v["v"], Decimal(v["v"])
    if k == "str":
        return sql_str(v["v"]), v["v"]
    if k == "expr":
        a, b = v["v"]
        return f"{a} + {b}", a + b
    if k == "bool":
        return ("TRUE" if v["v"] else "FALSE"), bool(v["v"])
    raise InvalidCase()


def _value_class(v: dict) -> str | None:
    if v["k"] == "str":
        s = v["v"]
        if __import__("re").search(r"\$\w", s):
            return "dollar"
        if "\\" in s:
            return "backslash"
        if "$" in s:
            return "dollar"
        if any(ch in s for ch in ".*([|^{?"):
            return "regex-meta"
        if "'" in s:
            return "quote"
        if any(ch in s for ch in "%;-\n"):
            return "sql-special"
    return None


def run_vars(case, ctx: Ctx) -> None:
    pool = case.get("pool") or list(range(len(NAMES)))
    if not all(isinstance(i, int) and 0 <= i < len(NAMES) for i in pool):
        raise InvalidCase()
    NAMES_ = [NAMES[i] for i in pool]
    fs = new_instance()
    try:
        conns = [fs.connect("db1", "s1"), fs.connect("db1", "s1")]
        curs = [[c.cursor(), c.cursor()] for c in conns]
        curs[0][0].execute("create table if not exists t (n int, s varchar)")
        curs[0][0].execute("insert into t values (1, 'a'), (2, 'b'), (3, 'c')")
        model: list[dict] = [{}, {}]
        poisoned = [False, False]
        last_use: list[list | None] = [None, None]

        for op in case["ops"]:
            kind, ci, ki = op[0], op[1], op[2]
            if ci not in (0, 1) or ki not in (0, 1):
                raise InvalidCase()
            cur = curs[ci][ki]
            m = model[ci]
            live = set(m)
            if any(a != b and b.startswith(a) for a in live for b in live):
                ctx.cls("prefix-pair-live")
                ctx.nontrivial = True
            if set(model[0]) & set(model[1]) and any(not same_value(model[0][k][1], model[1][k][1]) for k in set(model[0]) & set(model[1])):
                ctx.cls("cross-connection-different-values")
                ctx.nontrivial = True
            if ki == 1:
                ctx.cls("second-cursor")

            if kind == "set":
                name = _mask(NAMES_[op[3] % len(NAMES_)], op[4])
                sqlv, pyv = _sql_value(op[5])
                vc = _value_class(op[5])
                if vc:
                    ctx.cls(f"value:{vc}")
                    ctx.nontrivial = True
                o = run(cur, f"SET {name} = {sqlv}")
                if not o.ok:
                    ctx.fail(f"C15|set|raises|{o.etype}|value={vc or op[5]['k']}", f"SET {name} = {sqlv}: {o}")
                    return
                if o.rows != [("Statement executed successfully.",)]:
                    ctx.fail("C15|set|wrong-status", repr(o.rows))
                m[name.upper()] = (op[5], pyv)
            elif kind == "unset":
                name = _mask(NAMES_[op[3] % len(NAMES_)], op[4])
                if name.upper() not in m:
                    continue  # UNSET only of defined names (input domain)
                o = run(cur, f"UNSET {name}")
                if not o.ok:
                    ctx.fail(f"C15|unset|raises|{o.etype}", f"UNSET {name}: {o}")
                    return
                del m[name.upper()]
                ctx.cls("unset")
            elif kind in ("use", "repeat"):
                if kind == "repeat":
                    # the very same statement text again, after whatever SET/UNSET happened in between
                    if last_use[ci] is None:
                        continue
                    op = last_use[ci]
                    ctx.cls("same-statement-text-repeated")
                else:
                    last_use[ci] = op
                refs, form = op[3], op[4]
                names = [_mask(NAMES_[i % len(NAMES_)], mk) for i, mk in refs]
                if form == "where":
                    names = names[:1]
                undefined = [n for n in names if n.upper() not in m]
                if any(n != n.lower() and n != n.upper() for n in names):
                    ctx.cls("mixed-case-reference")
                if form == "plain":
                    sql = "SELECT " + ", ".join(f"${n} AS c{j}" for j, n in enumerate(names))
                elif form == "paren":
                    sql = "SELECT " + ", ".join(f"(${n}) AS c{j}" for j, n in enumerate(names))
                elif form == "adjacent":
                    sql = "SELECT " + ",".join(f"${n}" for n in names) + ",1"
                elif form == "where":
                    sql = f"SELECT count(*) FROM t WHERE n IN (${names[0]}, -1) OR s = ${names[0]}" if False else f"SELECT ${names[0]} AS c0, count(*) FROM t WHERE n >= 2"
                elif form == "param":
                    sql = "SELECT " + ", ".join(f"${n} AS c{j}" for j, n in enumerate(names)) + ", %s AS p"
                else:
                    raise InvalidCase()
                params = ("x$y'z",) if form == "param" else None
                before = snapshot(fs) if undefined else None
                o = run(cur, sql, params)
                if undefined:
                    ctx.cls("undefined-reference")
                    first = undefined[0].upper()
                    if o.ok:
                        ctx.fail("C15|undefined|not-rejected", f"{sql} with {sorted(m)} defined returned {o.rows!r}")
                    elif not isinstance(o.exc, snowflake.connector.errors.ProgrammingError):
                        ctx.fail(f"C15|undefined|raises|{o.etype}", f"{sql}: {o}")
                    else:
                        want = {f"Session variable '${u.upper()}' does not exist" for u in undefined}
                        if o.msg not in want:
                            ctx.fail("C15|undefined|wrong-message", f"{sql} with {sorted(m)} defined: {o.msg!r}, want one of {sorted(want)} (first {first})")
                    if snapshot(fs) != before:
                        ctx.fail("C15|undefined|had-effect", "")
                    continue
                want_row = [m[n.upper()][1] for n in names]
                if form == "adjacent":
                    want_row = want_row + [1]
                elif form == "where":
                    want_row = [want_row[0], 2]
                elif form == "param":
                    want_row = want_row + ["x$y'z"]
                vclasses = sorted({_value_class(m[n.upper()][0]) or m[n.upper()][0]["k"] for n in names})
                pref = any(k != n.upper() and (k.startswith(n.upper())) for n in names for k in m)
                disc = f"prefix-live={'y' if pref else 'n'}|values={'+'.join(vclasses)}"
                pct = form == "param" and any(m[n.upper()][0]["k"] == "str" and "%" in m[n.upper()][0]["v"] for n in names)
                if pct and (not o.ok or len(o.rows) != 1 or not all(same_value(g, w) for g, w in zip(o.rows[0], want_row))):
                    ctx.fail("C15|use|percent-in-value-beside-bound-parameters", f"{sql} {params!r} with {{{', '.join(f'{k}={v[1]!r}' for k, v in sorted(m.items()))}}}: {o}")
                    continue
                if not o.ok:
                    ctx.fail(f"C15|use|raises|{o.etype}|{disc}", f"{sql} with {{{', '.join(f'{k}={v[1]!r}' for k, v in sorted(m.items()))}}}: {o}")
                    if any(_value_class(v[0]) == "backslash" for v in m.values()):
                        poisoned[ci] = True
                    continue
                if len(o.rows) != 1 or len(o.rows[0]) != len(want_row) or not all(same_value(g, w) for g, w in zip(o.rows[0], want_row)):
                    ctx.fail(f"C15|use|wrong-value|{disc}", f"{sql} with {{{', '.join(f'{k}={v[1]!r}' for k, v in sorted(m.items()))}}} returned {o.rows!r}, want {[tuple(want_row)]!r}")
            elif kind == "script":
                # the same statements handed to execute_string in one text: each statement sees the variables as the ones before it left them
                name = _mask(NAMES_[op[3] % len(NAMES_)], op[4])
                sqlv, pyv = _sql_value(op[5])
                mode = op[6]
                if _value_class(op[5]) in ("dollar", "backslash") or (op[5]["k"] == "str" and any(ch in op[5]["v"] for ch in ";'\n-%")):
                    continue  # how execute_string re-renders such literals is C16's subject (and a listed finding there)
                ref = _mask(NAMES_[op[3] % len(NAMES_)], op[4] ^ 0xFF)
                if mode == "set-use":
                    text, expect = f"SET {name} = {sqlv}; SELECT ${ref} AS c0", ("value", pyv)
                    after = (op[5], pyv)
                elif mode == "set-set-use":
                    text, expect = f"SET {name} = 0; SET {ref} = {sqlv};\nSELECT ${name} AS c0;", ("value", pyv)
                    after = (op[5], pyv)
                elif mode == "unset-use":
                    if name.upper() not in m:
                        continue
                    text, expect = f"UNSET {name}; SELECT ${ref} AS c0", ("undefined", None)
                    after = None
                elif mode == "use-only":
                    text = f"SELECT 1 AS one; SELECT ${ref} AS c0"
                    expect = ("value", m[name.upper()][1]) if name.upper() in m else ("undefined", None)
                    after = m.get(name.upper())
                else:
                    raise InvalidCase()
                ctx.cls(f"script:{mode}")
                ctx.nontrivial = True
                try:
                    cs = list(conns[ci].execute_string(text))
                    rows, err = cs[-1].fetchall(), None
                except Exception as e:  # classified below
                    rows, err = None, e
                if after is None:
                    m.pop(name.upper(), None)
                else:
                    m[name.upper()] = after
                if expect[0] == "undefined":
                    if err is None:
                        ctx.fail(f"C15|script|undefined-not-rejected|{mode}", f"execute_string({text!r}) returned {rows!r}")
                    elif not isinstance(err, snowflake.connector.errors.ProgrammingError) or getattr(err, "msg", None) != f"Session variable '${name.upper()}' does not exist":
                        ctx.fail(f"C15|script|undefined|wrong-error|{mode}|{etype_name(err)}", f"execute_string({text!r}): {err!r}")
                elif err is not None:
                    ctx.fail(f"C15|script|raises|{mode}|{etype_name(err)}", f"execute_string({text!r}) with {sorted(m)} defined: {err!r}")
                    return
                elif len(rows) != 1 or not same_value(rows[0][0], expect[1]):
                    ctx.fail(f"C15|script|wrong-value|{mode}", f"execute_string({text!r}) returned {rows!r}, want {expect[1]!r}")
            elif kind == "literal":
                form, txt = op[3], op[4]
                ctx.cls(f"literal:{form}")
                if form == "dollar-quoted":
                    sql, want = f"SELECT $${txt}$$", txt
                elif form == "plain-no-dollar":
                    sql, want = f"SELECT {sql_str(txt)}", txt
                elif form == "dollar-in-literal":
                    sql, want = f"SELECT {sql_str('costs $' + 'zz' + txt.replace(' ', ''))}", "costs $zz" + txt.replace(" ", "")
                elif form == "dollar-digit-in-literal":
                    sql, want = f"SELECT {sql_str('costs $5 ' + txt)}", "costs $5 " + txt
                elif form == "double-dollar-in-literal":
                    sql, want = f"SELECT {sql_str('a$$b' + txt)}", "a$$b" + txt
                else:
                    raise InvalidCase()
                if any(_value_class(v[0]) == "backslash" for v in m.values()):
                    pass
                o = run(cur, sql)
                if not o.ok:
                    ctx.fail(f"C15|literal|rewritten-or-rejected|{form}", f"{sql}: {o}")
                elif o.rows != [(want,)]:
                    ctx.fail(f"C15|literal|wrong-value|{form}", f"{sql} returned {o.rows!r}, want {want!r}")
            else:
                raise InvalidCase()
    finally:
        close_instance(fs)


PROP = Prop(
    id="C15",
    facets=[
        Facet(
            name="variable_histories",
            strategy=_case,
            run=run_vars,
            rule=(
                "Hypothesis draws histories of 2-20/40 ops over 2 connections x 2 cursors: SET/re-SET (ints, decimals, booleans, "
                "expressions, strings over regex/SQL-special characters), UNSET of defined names, references in select lists (plain, "
                "parenthesised, adjacent to commas, beside bound parameters, with WHERE), undefined references, and text with $ that is "
                "not a reference ($$...$$ strings, '$' inside literals), and SET/UNSET followed by a reference inside one execute_string text. Names come from a pool built to collide (v, v1, v10, v1a, var, "
                "VAR, Var1, d, dt, n, nul ...) in random letter case. Oracle: dict per connection keyed by upper-cased name. "
                "Non-trivial: two live names one a proper prefix of the other, a value with a character special to re/SQL, or two "
                "connections holding different values for one name."
            ),
            quick=150,
            thorough=2500,
            budget_quick=50,
        )
    ],
    assumptions=["UNSET is generated only for defined names", "single-variable SET only (the repo documents multi-variable SET as unsupported)"],
)
