"""C16 — execute_string equals one-by-one execution; nop_regexes only no-op matches."""

from __future__ import annotations

import re

from hypothesis import strategies as st
from snowflake.connector.cursor import DictCursor, SnowflakeCursor

from vf.engine import Ctx, Facet, InvalidCase, Prop
from vf.gen import values as gv
from vf.util import close_instance, diff_snap, new_instance, run, snapshot, sql_str

_lit_text = st.lists(
    st.one_of(
        st.sampled_from([";", "'", "\\", "--", "/*", "*/", "\n", " ", "a;b", "-- not a comment", "/* nor this */", "\"", "é", "\U0001F600", "%", "?", ";;", "\\n", "\\'", "x"]),
        # literals that span lines, with lines that look like whole-line comments or statement ends
        st.sampled_from(["\n-- b\n", "a\n// b\nc", "\n  -- indented\n", "\n;\n", "\n/* c */\n", "x\n--", "\n//", "\r\n-- crlf\r\n", "\n\n", "\t-- tab\n"]),
        st.text(alphabet="abc XYZ;'-/*\\", max_size=4),
    ),
    max_size=4,
).map("".join)

_stmt = st.one_of(
    st.tuples(st.just("select_lit"), _lit_text, st.sampled_from(["quoted", "quoted", "dollar", "raw"])).map(list),
    st.tuples(st.just("insert"), st.integers(0, 9), _lit_text, st.sampled_from(["quoted", "quoted", "dollar", "raw"])).map(list),
    st.tuples(st.just("update"), st.integers(0, 9), _lit_text, st.just("quoted")).map(list),
    st.tuples(st.just("delete"), _lit_text, st.just("quoted")).map(list),
    st.tuples(st.just("select_all")).map(list),
    st.tuples(st.just("create"), st.integers(0, 3)).map(list),
    st.tuples(st.just("count")).map(list),
    st.tuples(st.just("set_var"), st.integers(0, 99)).map(list),
    st.tuples(st.just("use_var")).map(list),
    st.tuples(st.just("nop"), st.sampled_from(["CALL SOME_PROC(1)", "call other_proc('a;b')"])).map(list),
)
SEPS = [";", ";\n", " ; ", ";\n\n", ";;", "; ;", ";\n-- a comment; with a semicolon\n", "; /* block; comment */ ", ";\n/* multi\nline */\n", " ;\t"]
LEADS = ["", "", " ", "\n", "-- leading comment\n", "/* leading */ ", "-- it's a comment with a quote\n"]
TRAILS = ["", ";", ";\n", "; -- trailing comment", ";\n/* the end */", "\n"]
_sep = st.sampled_from(SEPS)
_lead = st.sampled_from(LEADS)
_trail = st.sampled_from(TRAILS)


@st.composite
def _case(draw, tier):
    n = draw(st.integers(0, 8))
    stmts = [draw(_stmt) for _ in range(n)]
    fail_at = draw(st.one_of(st.none(), st.integers(0, max(0, n))))
    return {
        "stmts": stmts,
        "seps": [draw(_sep) for _ in range(max(0, n))],
        "lead": draw(_lead),
        "trail": draw(_trail),
        "fail_at": fail_at,
        "cursor": draw(st.sampled_from(["tuple", "dict"])),
        "return_cursors": draw(st.sampled_from([True, True, False])),
    }


def _render_lit(text: str, form: str) -> str | None:
    if form == "dollar":
        if "$" in text or text.endswith("\\"):
            return None
        return f"$${text}$$"
    if form == "raw":  # single-quoted with the line breaks and tabs written as themselves (legal in a Snowflake string constant)
        return "'" + "".join("''" if ch == "'" else "\\\\" if ch == "\\" else ch for ch in text) + "'"
    if form != "quoted":
        raise InvalidCase()
    return sql_str(text)


def _render(st_) -> tuple[str, str | None] | None:
    """-> (sql, expected literal value for SELECT <literal>)"""
    k = st_[0]
    if k == "select_lit":
        lit = _render_lit(st_[1], st_[2])
        return None if lit is None else (f"SELECT {lit} AS L", st_[1])
    if k == "insert":
        lit = _render_lit(st_[2], st_[3])
        return None if lit is None else (f"INSERT INTO T VALUES ({int(st_[1])}, {lit})", None)
    if k == "update":
        return (f"UPDATE T SET S = {sql_str(st_[2])} WHERE K = {int(st_[1])}", None)
    if k == "delete":
        return (f"DELETE FROM T WHERE S = {sql_str(st_[1])}", None)
    if k == "select_all":
        return ("SELECT K, S FROM T ORDER BY K, S", None)
    if k == "create":
        return (f"CREATE TABLE IF NOT EXISTS U{int(st_[1])} (I INT)", None)
    if k == "count":
        return ("SELECT COUNT(*) AS N FROM T", None)
    if k == "set_var":
        return (f"SET VV = {int(st_[1])}", None)
    if k == "use_var":
        return ("SELECT $VV AS V", None)  # fails on both routes alike when VV was never set
    if k == "nop":
        if st_[1] not in ("CALL SOME_PROC(1)", "call other_proc('a;b')"):
            raise InvalidCase()
        return (st_[1], None)  # matches the nop_regexes both instances are configured with
    raise InvalidCase()


def _rows(cur):
    try:
        rs = cur.fetchall()
    except Exception as e:
        return f"fetchall raised {type(e).__name__}"
    return [tuple(r.values()) if isinstance(r, dict) else tuple(r) for r in rs]


def _desc(cur):
    try:
        return [(c.name, c.type_code) for c in cur.description]
    except Exception as e:
        return f"description raised {type(e).__name__}"


def run_execute_string(case, ctx: Ctx) -> None:
    rendered = []
    for s in case["stmts"]:
        r = _render(s)
        if r is None:
            ctx.excluded += 1
            return
        rendered.append(r)
    n = len(rendered)
    fail_at = case.get("fail_at")
    stmts = [r[0] for r in rendered]
    expect = [r[1] for r in rendered]
    if fail_at is not None:
        if not isinstance(fail_at, int) or not 0 <= fail_at <= n:
            raise InvalidCase()
        stmts.insert(fail_at, "SELECT * FROM NO_SUCH_TABLE_ANYWHERE")
        expect.insert(fail_at, None)
    if case["lead"] not in LEADS or case["trail"] not in TRAILS or any(x not in SEPS for x in case["seps"]):
        raise InvalidCase()
    seps = list(case["seps"]) + [";"] * len(stmts)
    lead = case["lead"]
    # whether a statement that has a comment in front of it still "matches" an anchored nop pattern is not stated by the property (the
    # pattern is matched against the statement text as executed): a nop statement is never placed directly behind a comment
    is_nop = [st_.upper().startswith("CALL ") for st_ in stmts]
    if stmts and is_nop[0] and ("--" in lead or "/*" in lead):
        lead = ""
    for i in range(1, len(stmts)):
        if is_nop[i] and ("--" in seps[i - 1] or "/*" in seps[i - 1]):
            seps[i - 1] = ";\n"
    text = lead
    for i, s in enumerate(stmts):
        text += s + (seps[i] if i < len(stmts) - 1 else "")
    text += case["trail"]
    cls = DictCursor if case["cursor"] == "dict" else SnowflakeCursor
    fs, twin = new_instance(nop_regexes=[r"^CALL\s"]), new_instance(nop_regexes=[r"^CALL\s"])
    try:
        conn, tconn = fs.connect("db1", "s1"), twin.connect("db1", "s1")
        for c_ in (conn, tconn):
            c_.cursor().execute("CREATE TABLE T (K INT, S VARCHAR)")
            c_.cursor().execute("INSERT INTO T VALUES (1, 'one'), (2, 'two')")
        for st_ in case["stmts"]:
            if st_[0] in ("set_var", "use_var", "nop"):
                ctx.cls(f"statement:{st_[0]}")
        specials = [ch for ch in (";", "'", "\\", "--", "/*") if any(ch in (st_[1] if isinstance(st_[1], str) else "") or (len(st_) > 2 and isinstance(st_[2], str) and ch in st_[2]) for st_ in case["stmts"] if len(st_) > 1)]
        for ch in specials:
            ctx.cls(f"literal-contains:{ch}")
        if any(len(st_) > 2 and st_[-1] in ("raw", "dollar") and isinstance(st_[-2], str) and "\n" in st_[-2] for st_ in case["stmts"]):
            ctx.cls("literal-spans-lines")
        if any(x in text for x in ("-- ", "/*")):
            ctx.cls("comments-between-statements")
        if ";;" in text or "; ;" in text:
            ctx.cls("empty-statement")
        ctx.cls("with-failing-statement" if fail_at is not None else "all-succeed", f"n={min(len(stmts), 5)}")
        ctx.nontrivial = len(stmts) >= 2 and (bool(specials) or "comments-between-statements" in ctx.classes or "empty-statement" in ctx.classes)

        # the one-by-one route on the twin
        want = []
        werr = None
        for i, s in enumerate(stmts):
            tc = tconn.cursor(cls)
            o = run(tc, s, fetch=False)
            if not o.ok:
                werr = (i, o)
                break
            want.append((_rows(tc), _desc(tc)))
        # execute_string on the instance under test
        err = None
        curs = None
        try:
            curs = conn.execute_string(text, return_cursors=case["return_cursors"], cursor_class=cls)
            curs = list(curs)
        except Exception as e:
            err = e
        where = f"text={text!r}"
        # listed finding: a $$..$$ string containing a backslash is changed on the direct route; tag everything it can explain
        dq = any(len(st_) > 2 and st_[-1] == "dollar" and "\\" in str(st_[-2]) for st_ in case["stmts"])
        orig_fail = ctx.fail
        if dq:
            ctx.fail = lambda sig, detail="": orig_fail(sig + "|script-has-dollar-quoted-backslash", detail)  # type: ignore[method-assign]
            ctx.cls("dollar-quoted-backslash")
        if werr is not None:
            if err is None:
                ctx.fail("C16|execute_string|failure-not-raised", f"{where}: statement {werr[0]} fails one-by-one ({werr[1]}) but execute_string returned")
            elif (type(err).__name__, getattr(err, "errno", None), getattr(err, "sqlstate", None)) != (type(werr[1].exc).__name__, werr[1].errno, werr[1].sqlstate):
                ctx.fail(f"C16|execute_string|different-error|{type(err).__name__}", f"{where}: {err!r} vs one-by-one {werr[1]}")
        elif err is not None:
            ctx.fail(f"C16|execute_string|raises|{type(err).__module__}.{type(err).__name__}", f"{where}: {err}")
            return
        else:
            if not case["return_cursors"]:
                if curs != []:
                    ctx.fail("C16|execute_string|return_cursors-false-returned-cursors", f"{curs!r}")
            elif len(curs) != len(stmts):
                ctx.fail("C16|execute_string|wrong-number-of-cursors", f"{where}: {len(curs)} cursors for {len(stmts)} statements")
            else:
                for i, (c_, (wrows, wdesc)) in enumerate(zip(curs, want)):
                    grows, gdesc = _rows(c_), _desc(c_)
                    if grows != wrows:
                        kind = "select-literal" if expect[i] is not None else stmts[i].split()[0].lower()
                        ctx.fail(f"C16|execute_string|rows-differ-from-one-by-one|{kind}", f"statement {i} `{stmts[i]}` in {where}: {grows!r} vs {wrows!r}")
                    elif gdesc != wdesc:
                        ctx.fail("C16|execute_string|description-differs-from-one-by-one", f"statement {i} `{stmts[i]}`: {gdesc} vs {wdesc}")
                    if expect[i] is not None and grows != [(expect[i],)]:
                        ctx.fail("C16|execute_string|literal-changed", f"statement {i} `{stmts[i]}` in {where}: returned {grows!r}, the literal denotes {expect[i]!r}")
                if len({id(c_) for c_ in curs}) != len(curs):
                    ctx.fail("C16|execute_string|cursor-reused", "")
        # independent of both routes: literal value (one-by-one too)
        for i, (wr, _) in enumerate(want):
            if expect[i] is not None and wr != [(expect[i],)]:
                ctx.fail("C16|one-by-one|literal-changed", f"`{stmts[i]}` returned {wr!r}, the literal denotes {expect[i]!r}")
        sa, sb = snapshot(fs), snapshot(twin)
        if sa != sb:
            ctx.fail(f"C16|execute_string|final-state-differs-from-one-by-one|{'after-failure' if werr else 'all-ok'}", f"{where}: {diff_snap(sb, sa)}")
    finally:
        close_instance(fs)
        close_instance(twin)


# ------------------------------------------------------------------------------------------ nop_regexes

PATTERNS = [
    r"^CALL\s", r"alter\s+session", r"\s*GRANT\b", r"^create\s+(or\s+replace\s+)?stage", r"INSERT INTO AUDIT VALUES \('skip'", r"^\s*--\s*noop",
    # patterns that are only right when each is matched on its own: inline flags, groups, back-references, repeated group names
    r"(?s)^call\s.*\)$", r"^(create|drop)\s+(stage)\s+(\w+)", r"^SELECT\s+'(\w+)'\s*=\s*'\1'", r"^(?P<verb>REVOKE)\s", r"^(?P<verb>SHOW)\s+GRANTS", r"^(?i:put|get)\s+file:",
]
NOP_STMTS = [
    ("start", "CALL SOME_PROC(1)", None),
    ("start", "call   other_proc('x')", None),
    ("start", "ALTER SESSION SET TIMEZONE = 'UTC'", None),
    ("start", "  GRANT SELECT ON T TO ROLE R", None),
    ("start", "create or replace stage my_stage", None),
    ("start", "CREATE STAGE S2", None),
    ("middle", "SELECT 'CALL me maybe' AS X", None),
    ("middle", "INSERT INTO T VALUES (5, 'alter session')", None),
    ("middle", "SELECT K FROM T WHERE S <> 'GRANT' ORDER BY K", None),
    ("after-params", "INSERT INTO AUDIT VALUES (%s)", ("skip",)),
    ("after-params-nomatch", "INSERT INTO AUDIT VALUES (%s)", ("keep",)),
    ("start", "SELECT 'abc' = 'abc' AS SAME", None),
    ("backref-nomatch", "SELECT 'abc' = 'abd' AS SAME", None),
    ("start", "revoke select on t from role r", None),
    ("start", "Show Grants To Role R", None),
    ("start", "DROP STAGE S2", None),
    ("start", "put file:///tmp/x.csv @my_stage", None),
    ("start", "CALL MULTI(\n1,\n2\n)", None),
    ("none", "SELECT K, S FROM T ORDER BY K", None),
    ("none", "INSERT INTO T VALUES (7, 'seven')", None),
    ("none", "UPDATE T SET S = 'u' WHERE K = 1", None),
    ("none", "CREATE TABLE X (I INT)", None),
    ("none", "SELECT * FROM MISSING_TABLE", None),
    ("none", "DELETE FROM T WHERE K = 2", None),
    ("none", "COMMENT ON TABLE T IS 'first'", None),
    ("none", "ALTER TABLE T SET COMMENT = 'second'", None),
    ("none", "SET NV = 5", None),
]
COMMENT_ON, ALTER_COMMENT = len(NOP_STMTS) - 3, len(NOP_STMTS) - 2


@st.composite
def _nop_case(draw, tier):
    return {
        "patterns": draw(st.lists(st.integers(0, len(PATTERNS) - 1), max_size=5, unique=True)),
        "stmts": ([COMMENT_ON, ALTER_COMMENT] if draw(st.integers(0, 3)) == 0 else []) + draw(st.lists(st.integers(0, len(NOP_STMTS) - 1), min_size=1, max_size=6)),
        "same_cursor": draw(st.booleans()),
    }


def run_nop(case, ctx: Ctx) -> None:
    if any(not isinstance(i, int) or not 0 <= i < len(PATTERNS) for i in case["patterns"]) or any(not isinstance(i, int) or not 0 <= i < len(NOP_STMTS) for i in case["stmts"]):
        raise InvalidCase()
    pats = [PATTERNS[i] for i in case["patterns"]]
    fs, twin = new_instance(nop_regexes=pats or None), new_instance()
    try:
        conn, tconn = fs.connect("db1", "s1"), twin.connect("db1", "s1")
        for c_ in (tconn, conn):
            for sql in ("CREATE TABLE T (K INT, S VARCHAR)", "INSERT INTO T VALUES (1, 'one'), (2, 'two')", "CREATE TABLE AUDIT (W VARCHAR)"):
                o = run(c_.cursor(), sql)  # none of these matches any pattern of the pool
                if not o.ok:
                    if c_ is tconn:
                        raise RuntimeError(f"setup failed on the plain instance: {o}")
                    ctx.fail(f"C16|nop|non-matching-statement-raises|setup|{o.etype}", f"patterns {pats}: `{sql}`: {o}")
                    return
        cur, tcur = conn.cursor(), tconn.cursor()
        saw_match = saw_nomatch = False
        for si in case["stmts"]:
            where, sql, params = NOP_STMTS[si]
            if not case.get("same_cursor"):
                cur, tcur = conn.cursor(), tconn.cursor()
            text = sql % tuple("'" + p + "'" for p in params) if params else sql
            matches = any(re.match(p, text, re.IGNORECASE) for p in pats)
            ctx.cls(f"nop:{where}:{'match' if matches else 'no-match'}")
            if matches:
                saw_match = True
                before = snapshot(fs)
                o = run(cur, sql, params)
                if not o.ok:
                    ctx.fail(f"C16|nop|matching-statement-raises|{where}", f"patterns {pats}: `{sql}` {params}: {o}")
                    continue
                if o.rows != [("Statement executed successfully.",)]:
                    ctx.fail(f"C16|nop|wrong-status|{where}", f"patterns {pats}: `{sql}` returned {o.rows!r}")
                if snapshot(fs) != before:
                    ctx.fail(f"C16|nop|matching-statement-had-effect|{where}", f"patterns {pats}: `{sql}` {params}: {diff_snap(before, snapshot(fs))}")
                if o.rowcount != 1:
                    ctx.fail("C16|nop|rowcount", f"{o.rowcount}")
                try:
                    names = [c.name for c in cur.description]
                    if names != ["status"]:
                        ctx.fail("C16|nop|description-names", f"{names}")
                except Exception as e:
                    ctx.fail(f"C16|nop|description-raises|{type(e).__name__}", str(e))
            else:
                saw_nomatch = True
                a, b = run(cur, sql, params), run(tcur, sql, params)
                if (a.ok, repr(a.rows), a.err_key(), a.rowcount) != (b.ok, repr(b.rows), b.err_key(), b.rowcount):
                    ctx.fail(f"C16|nop|non-matching-statement-differs-from-plain-instance|{where}", f"patterns {pats}: `{sql}` {params}: {a} vs {b}")
                # keep the twin in step for statements that would have been no-ops there too (none: the twin has no patterns)
        # the twin executed only the non-matching statements, so the states must agree
        sa, sb = snapshot(fs), snapshot(twin)
        if sa != sb:
            ctx.fail("C16|nop|final-state-differs", f"patterns {pats}: {diff_snap(sb, sa)}")
        ctx.nontrivial = saw_match and saw_nomatch
    finally:
        close_instance(fs)
        close_instance(twin)


PROP = Prop(
    id="C16",
    facets=[
        Facet(
            name="execute_string",
            strategy=_case,
            run=run_execute_string,
            rule=(
                "Hypothesis draws 0-8 statements (SELECT <literal>, INSERT/UPDATE/DELETE with literals, SELECT of the table, CREATE, COUNT, SET of a "
                "session variable, a $variable reference, a statement matching the instances' nop_regexes) "
                "whose string literals come from an adversarial alphabet (; ' \\\\ -- /* */ newline, unicode, escapes) in single-quoted or "
                "$$..$$ form, joined by generated separators (;, whitespace/newlines, empty statements, line and block comments containing "
                "semicolons and quotes, leading/trailing comments, trailing ; or not), optionally with a failing statement at a generated "
                "position, tuple or dict cursor class, return_cursors on/off. Oracle: a twin instance executing the statements one by one "
                "on fresh cursors (rows, description, error, final snapshot) and, independently, the Python string each literal denotes. "
                "Non-trivial: >=2 statements and a literal containing ; ' \\\\ or a comment marker, or a comment/empty statement between statements."
            ),
            quick=150,
            thorough=2000,
            budget_quick=50,
        ),
        Facet(
            name="nop_regexes",
            strategy=_nop_case,
            run=run_nop,
            rule=(
                "0-3 patterns from a pool (anchored/unanchored, mixed case, leading \\\\s*, one matching only the parameter-substituted text) x "
                "1-6 statements that match at the start, contain the pattern text only in the middle, match only after parameter substitution, "
                "or do not match (incl. COMMENT ON / ALTER .. SET COMMENT / SET, whose bookkeeping a later no-op must not repeat); oracle: re.match(p, text, IGNORECASE) decides - matching statements return the one-row success status and "
                "leave the snapshot unchanged, all others behave as on a twin without the option. Non-trivial: a script with both kinds."
            ),
            quick=60,
            thorough=600,
            quick_shards=4,
            budget_quick=40,
        ),
    ],
    assumptions=["literal contents exclude $ (C15 finding) except as $$ delimiters", "nop matching is on the parameter-substituted text, as the anchored mechanism states"],
)
