"""C10 — rewritten Snowflake functions return what Snowflake documents, wherever they appear."""

from __future__ import annotations

import datetime as dt
import hashlib
import json
import re
from decimal import Decimal

import snowflake.connector.errors
from hypothesis import strategies as st

from vf.engine import Ctx, Facet, InvalidCase, Prop
from vf.model import sfref
from vf.model.sfref import Reject
from vf.util import close_instance, dec, enc, etype_name, new_instance, run, same_value, sql_lit, sql_str

CONTEXTS = ["select", "select", "where", "cte", "view", "insert", "nested", "subquery"]
FORMS = ["literal", "literal", "column"]

# ------------------------------------------------------------------ generators (plain JSON cases)

_subj = st.text(alphabet="abcABC 012.-", max_size=10)
_atom = st.sampled_from(["a", "b", "c", "ab", ".", "[abc]", "[a-c]", "[0-9]", "\\d", "\\w", "\\s", "[^a]", "A", "0", "-", "\\."])
_quant = st.sampled_from(["", "", "+", "{2}", "{1,2}"])


_SAMPLE = {"a": "a", "b": "b", "c": "c", "ab": "ab", ".": "c", "[abc]": "b", "[a-c]": "c", "[0-9]": "7", "\\d": "3", "\\w": "B", "\\s": " ", "[^a]": "b", "A": "A", "0": "0", "-": "-", "\\.": "."}


@st.composite
def _pattern(draw, groups=False, with_subject=False):
    parts, sample = [], []
    for _ in range(draw(st.integers(1, 3))):
        atom, q = draw(_atom), draw(_quant)
        a = atom + q
        reps = {"": 1, "+": draw(st.integers(1, 2)), "{2}": 2, "{1,2}": draw(st.integers(1, 2))}[q]
        sample.append(_SAMPLE[atom] * reps)
        if groups and draw(st.booleans()):
            a = f"({a})"
        parts.append(a)
    pat = "".join(parts)
    if not with_subject:
        return pat
    # a subject built to contain 1-3 matches (construction, not hoping), with random filler around them
    inst = "".join(sample)
    fill = st.text(alphabet="abcABC 012.-", max_size=3)
    subj = draw(fill)
    for _ in range(draw(st.integers(1, 3))):
        subj += inst + draw(fill)
    return pat, subj[:24]


_date = st.one_of(
    st.sampled_from(["2020-01-31", "2020-02-29", "2019-02-28", "1969-12-31", "1970-01-01", "2021-12-31", "2000-02-29", "1999-12-31", "2023-03-02", "2023-04-02", "2020-03-31"]),
    st.dates(dt.date(1900, 1, 1), dt.date(2100, 12, 31)).map(lambda d: d.isoformat()),
)
_ts = st.one_of(
    st.sampled_from(["2020-01-31 23:59:59.999999", "1969-12-31 23:59:59.999999", "1970-01-01 00:00:00", "2020-02-29 12:00:00", "2021-12-31 23:59:59", "2020-01-01 00:59:59", "2020-01-01 01:00:00"]),
    st.datetimes(dt.datetime(1900, 1, 1), dt.datetime(2100, 12, 31)).map(lambda d: d.isoformat(sep=" ")),
)
_part = st.sampled_from(sorted(sfref.DATE_PARTS))


@st.composite
def _case(draw, construct, nest=True):
    c = {"c": construct, "form": draw(st.sampled_from(FORMS)), "ctx": draw(st.sampled_from(CONTEXTS))}
    a: dict = {}
    if construct == "regexp_replace":
        pat, built = draw(_pattern(groups=True, with_subject=True))
        a = {"s": draw(st.one_of(st.none(), _subj, st.just(built), st.just(built))), "p": pat, "r": draw(st.sampled_from([None, "", "X", "<\\1>", "\\1\\1", "-", "a b"]))}
    elif construct == "regexp_substr":
        pat, built = draw(_pattern(groups=True, with_subject=True))
        s = draw(st.one_of(_subj, st.just(built), st.just(built), st.just(built)))
        a = {"s": s, "p": pat, "pos": draw(st.integers(1, max(1, len(s) + 1))), "occ": draw(st.integers(1, 3)), "params": draw(st.sampled_from([None, "c", "i", "e", "ie", "ci"])), "grp": draw(st.sampled_from([None, 0, 1, 1, 2])), "nargs": draw(st.sampled_from([2, 3, 4, 5, 5, 6, 6, 6]))}
    elif construct == "split":
        a = {"s": draw(st.one_of(st.none(), st.text(alphabet="ab,;| ", max_size=8))), "sep": draw(st.sampled_from([",", ";", "|", ", ", "ab", " ", "", "a"]))}
    elif construct == "trim":
        a = {"fn": draw(st.sampled_from(["TRIM", "LTRIM", "RTRIM"])), "s": draw(st.one_of(st.none(), st.text(alphabet="xy ab\t", max_size=8), st.integers(-50, 50))), "chars": draw(st.sampled_from([None, None, "x", "xy", " ", "ab", " x"]))}
    elif construct == "to_date":
        a = {"kind": draw(st.sampled_from(["date-string", "ts-string", "date-value", "ts-value", "with-format"])), "d": draw(_date), "t": draw(_ts)}
    elif construct == "to_timestamp":
        a = {"fn": draw(st.sampled_from(["TO_TIMESTAMP", "TO_TIMESTAMP", "TO_TIMESTAMP_NTZ"])), "kind": draw(st.sampled_from(["string", "string-frac", "int", "int-scale", "date-value"])), "t": draw(_ts), "d": draw(_date), "n": draw(st.one_of(st.sampled_from([0, -1, 1, 86399, 86400, -86401, 1700000000]), st.integers(-(2**31), 2**32))), "scale": draw(st.sampled_from([0, 3, 6]))}
    elif construct == "to_decimal":
        p = draw(st.integers(1, 38))
        s = draw(st.integers(0, min(p, 12)))
        digits = draw(st.integers(0, 10 ** min(p - s + 1, 12)))
        frac = draw(st.one_of(st.sampled_from(["", "5", "45", "55", "49", "50", "005", "995"]), st.text(alphabet="0123456789", max_size=s + 2)))
        txt = f"{'-' if draw(st.booleans()) else ''}{digits}{'.' + frac if frac else ''}"
        a = {"fn": draw(st.sampled_from(["TO_DECIMAL", "TO_NUMBER", "TO_NUMERIC", "TRY_TO_DECIMAL", "TRY_TO_NUMBER", "TRY_TO_NUMERIC"])), "x": draw(st.one_of(st.just(txt), st.just(txt), st.sampled_from(["abc", "", "1e2", " 12 ", "1,000"]))), "as": draw(st.sampled_from(["string", "string", "number"])), "p": p, "s": s, "nargs": draw(st.sampled_from([1, 2, 3, 3])), "fmt": draw(st.sampled_from([False, False, False, True]))}
    elif construct == "dateadd":
        a = {"part": draw(_part), "alias": draw(st.integers(0, 7)), "n": draw(st.one_of(st.sampled_from([0, 1, -1, 12, -12, 13, 31, 365, 400, -400]), st.integers(-400, 400))), "xkind": draw(st.sampled_from(["date", "timestamp", "string-date", "string-ts"])), "d": draw(_date), "t": draw(_ts)}
    elif construct == "datediff":
        a = {"part": draw(_part), "alias": draw(st.integers(0, 7)), "kind": draw(st.sampled_from(["date", "timestamp", "string"])), "a": draw(_ts), "b": draw(_ts), "near": draw(st.sampled_from([None, None, 1, -1, 1000000, 86400 * 10**6]))}
    elif construct == "sha2":
        a = {"fn": draw(st.sampled_from(["SHA2", "SHA2_HEX", "SHA2_BINARY"])), "s": draw(st.one_of(st.none(), st.text(alphabet="abcé \U0001F600'", max_size=6))), "bits": draw(st.sampled_from([None, None, 256, 224, 384, 512]))}
    elif construct == "equal_null":
        v = st.one_of(st.none(), st.integers(-2, 2), st.sampled_from(["a", "b", ""]))
        a = {"a": draw(v), "b": draw(v)}
    elif construct == "random":
        a = {"seed": draw(st.integers(-(2**31), 2**31 - 1)), "n": draw(st.integers(1, 4))}
    elif construct == "sample":
        a = {"seed": draw(st.integers(0, 2**31 - 1)), "p": draw(st.sampled_from([0, 1, 10, 50, 90, 99, 100])), "rows": draw(st.integers(0, 50))}
    elif construct == "identifier":
        a = {"level": draw(st.integers(1, 3)), "use": draw(st.sampled_from(["from", "insert", "update", "delete", "join"])), "case": draw(st.sampled_from(["upper", "lower"]))}
    elif construct == "values":
        ncols = draw(st.integers(1, 5))
        a = {"rows": [[draw(st.integers(-9, 9)) for _ in range(ncols)] for _ in range(draw(st.integers(1, 4)))], "pick": draw(st.integers(1, ncols)), "use": draw(st.sampled_from(["select", "where", "order", "expr"]))}
    elif construct == "array_agg":
        a = {"rows": draw(st.lists(st.tuples(st.sampled_from(["g1", "g2"]), st.one_of(st.none(), st.integers(0, 5))).map(list), max_size=6)), "distinct": draw(st.booleans()), "order": draw(st.sampled_from([None, "asc", "desc"])), "mode": draw(st.sampled_from(["all", "group", "over", "empty"]))}
    elif construct == "alias_in_join":
        a = {"left": draw(st.lists(st.integers(0, 5), min_size=1, max_size=4)), "right": draw(st.lists(st.integers(0, 6), min_size=1, max_size=4)), "expr": draw(st.sampled_from(["plus1", "times2", "plain"]))}
    elif construct == "cast":
        a = {"target": draw(st.sampled_from(["INT", "NUMBER(10,2)", "NUMBER(5,0)", "NUMBER(38,10)", "FLOAT", "VARCHAR", "DATE", "TIMESTAMP_NTZ", "TIMESTAMP", "BOOLEAN"])), "src": draw(st.sampled_from(["int", "decimal", "decimal-string", "float", "int-string", "date", "timestamp", "date-string", "bool", "midpoint"])), "n": draw(st.integers(-99999, 99999)), "frac": draw(st.sampled_from(["5", "50", "45", "55", "499", "500", "005", "995", "25", "75"])), "d": draw(_date), "t": draw(_ts), "op": draw(st.sampled_from(["::", "CAST", "TRY_CAST"]))}
    else:
        raise InvalidCase()
    if construct in ("regexp_replace", "trim") and nest and draw(st.integers(0, 3)) == 0:
        # the subject is itself the result of a rewritten function
        ic = draw(st.sampled_from(["regexp_replace", "regexp_replace", "trim", "regexp_substr"]))
        a["inner"] = {"c": ic, "a": draw(_case(ic, nest=False))["a"]}
    c["a"] = a
    return c


# ------------------------------------------------------------------ per-construct builders: -> spec


class Spec:
    def __init__(self, expr=None, expected=None, rtype="VARCHAR", supported=True, edge=False, args=None, script=None, reject=False):
        self.expr = expr  # SQL expression using {0}, {1}.. for arguments
        self.args = args or []  # list of (sql literal, may_be_column)
        self.expected = expected
        self.rtype = rtype
        self.supported = supported  # False: a form fakesnow need not support — rejection or the right answer are both fine
        self.reject = reject  # Snowflake itself raises for this input
        self.edge = edge
        self.script = script  # custom checker instead of expression embedding


def _lit(v, typ=None):
    if v is None:
        return f"NULL::{typ}" if typ else "NULL"
    return sql_lit(v)


def _inner_spec(a):
    """The optional inner call whose result is the subject of the outer one (a rewritten function nested in a rewritten function)."""
    inner = a.get("inner")
    if not inner:
        return None
    if not isinstance(inner, dict) or inner.get("c") not in ("regexp_replace", "regexp_substr", "trim") or "a" not in inner or (inner["a"] or {}).get("inner"):
        raise InvalidCase()
    ia = inner["a"]
    if inner["c"] == "regexp_substr" and ia.get("nargs", 2) >= 5 and "e" in (ia.get("params") or "") and (ia.get("nargs", 2) < 6 or ia.get("grp") is None):
        raise InvalidCase()  # the 'e' parameter without a group number is a listed finding of its own; keep it out of the outer call's verdict
    sp = {"regexp_replace": b_regexp_replace, "regexp_substr": b_regexp_substr, "trim": b_trim}[inner["c"]](ia)
    if sp.reject or not sp.supported or sp.rtype != "VARCHAR":
        raise InvalidCase()
    return sp


def _valid_pattern(p) -> bool:
    """Only patterns of the generated sub-grammar (the shrinker can turn {1,2} into {,}, which the regex dialects read differently)."""
    return isinstance(p, str) and "{," not in p and ",}" not in p and "{}" not in p and "()" not in p


def _compose(outer: "Spec", inner: "Spec") -> "Spec":
    """outer's first argument becomes the inner expression; placeholders are renumbered."""
    k = len(inner.args)
    shifted = outer.expr
    for i in range(len(outer.args) - 1, 0, -1):
        shifted = shifted.replace("{%d}" % i, "{%d}" % (i + k - 1))
    inner_expr = inner.expr
    shifted = shifted.replace("{0}", "\x00")
    expr = shifted.replace("\x00", inner_expr)
    return Spec(expr, outer.expected, outer.rtype, supported=outer.supported, edge=True, args=inner.args + outer.args[1:], reject=outer.reject)


def b_regexp_replace(a):
    isp = _inner_spec(a)
    s, p, r = (isp.expected if isp else a["s"]), a["p"], a["r"]
    if not _valid_pattern(p):
        raise InvalidCase()
    try:
        re.compile(p)
    except re.error:
        raise InvalidCase() from None
    if re.search(p, "") or any(m.group(0) == "" for m in re.finditer(p, s or "")):
        raise InvalidCase()
    if r is not None and re.search(r"\\(\d)", r) and max(int(x) for x in re.findall(r"\\(\d)", r)) > re.compile(p).groups:
        r = r.replace("\\", "")
    exp = sfref.regexp_replace(s, p, r if r is not None else "")
    args = [(_lit(s, "VARCHAR"), True), (sql_str(p), False)] + ([(sql_str(r), False)] if r is not None else [])
    expr = "REGEXP_REPLACE(" + ", ".join("{%d}" % i for i in range(len(args))) + ")"
    out = Spec(expr, exp, "VARCHAR", args=args, edge=s is None or (r is not None and "\\" in r) or r is None)
    return _compose(out, isp) if isp else out


def b_regexp_substr(a):
    s, p = a["s"], a["p"]
    if not _valid_pattern(p):
        raise InvalidCase()
    try:
        rx = re.compile(p)
    except re.error:
        raise InvalidCase() from None
    if rx.search("") or any(m.group(0) == "" for m in rx.finditer(s)):
        raise InvalidCase()
    nargs = a["nargs"]
    if not (isinstance(a["pos"], int) and isinstance(a["occ"], int) and a["occ"] >= 1 and isinstance(nargs, int) and 2 <= nargs <= 6):
        raise InvalidCase()
    pos = a["pos"] if nargs >= 3 else 1
    occ = a["occ"] if nargs >= 4 else 1
    params = (a["params"] or "c") if nargs >= 5 else None
    grp = a["grp"] if nargs >= 6 else None
    if nargs >= 6 and grp is None:
        nargs = 5
    if not 1 <= pos <= len(s) + 1:
        raise InvalidCase()
    if grp is not None and grp > rx.groups:
        raise InvalidCase()
    if ("e" in (params or "")) and grp is None and rx.groups == 0:
        raise InvalidCase()
    exp = sfref.regexp_substr(s, p, pos, occ, params or "c", grp)
    lits = [(sql_str(s), True), (sql_str(p), False), (str(pos), False), (str(occ), False), (sql_str(params or "c"), False), (str(grp), False)][:nargs]
    expr = "REGEXP_SUBSTR(" + ", ".join("{%d}" % i for i in range(len(lits))) + ")"
    return Spec(expr, exp, "VARCHAR", args=lits, edge=pos > 1 or occ > 1 or (grp or 0) > 0 or "e" in (params or "") or "i" in (params or ""))


def b_split(a):
    s, sep = a["s"], a["sep"]
    exp = sfref.split(s, sep)
    return Spec("SPLIT({0}, {1})", exp, "ARRAY", args=[(_lit(s, "VARCHAR"), True), (sql_str(sep), False)], edge=s is None or sep == "" or (s is not None and sep and (s.startswith(sep) or s.endswith(sep) or sep + sep in s)))


def b_trim(a):
    isp = _inner_spec(a)
    fn, s, chars = a["fn"], (isp.expected if isp else a["s"]), a["chars"]
    if fn not in ("TRIM", "LTRIM", "RTRIM") or chars == "":
        raise InvalidCase()
    where = {"TRIM": "both", "LTRIM": "left", "RTRIM": "right"}[fn]
    exp = sfref.trim(s, chars if chars is not None else " ", where)
    args = [(_lit(s, "VARCHAR") if not isinstance(s, int) else str(s), True)] + ([(sql_str(chars), False)] if chars is not None else [])
    out = Spec(f"{fn}(" + ", ".join("{%d}" % i for i in range(len(args))) + ")", exp, "VARCHAR", args=args, edge=chars is not None or isinstance(s, int) or s is None)
    return _compose(out, isp) if isp else out


def b_to_date(a):
    kind = a["kind"]
    d = dt.date.fromisoformat(a["d"])
    t = dt.datetime.fromisoformat(a["t"])
    if kind == "date-string":
        return Spec("TO_DATE({0})", d, "DATE", args=[(sql_str(a["d"]), True)], edge=d.year < 1970)
    if kind == "ts-string":
        return Spec("TO_DATE({0})", t.date(), "DATE", args=[(sql_str(a["t"]), True)], edge=True)
    if kind == "date-value":
        return Spec("TO_DATE({0})", d, "DATE", args=[(f"{sql_str(a['d'])}::DATE", True)])
    if kind == "ts-value":
        return Spec("TO_DATE({0})", t.date(), "DATE", args=[(f"{sql_str(a['t'])}::TIMESTAMP_NTZ", True)], edge=True)
    return Spec("TO_DATE({0}, 'DD/MM/YYYY')", d, "DATE", args=[(sql_str(d.strftime("%d/%m/%Y")), True)], supported=False)


def b_to_timestamp(a):
    fn, kind = a["fn"], a["kind"]
    t = dt.datetime.fromisoformat(a["t"])
    if kind == "string":
        t0 = t.replace(microsecond=0)
        return Spec(f"{fn}({{0}})", t0, "TIMESTAMP_NTZ", args=[(sql_str(t0.isoformat(sep=" ")), True)], edge=t.year < 1970)
    if kind == "string-frac":
        return Spec(f"{fn}({{0}})", t, "TIMESTAMP_NTZ", args=[(sql_str(t.isoformat(sep=" ")), True)], edge=True, supported=(fn == "TO_TIMESTAMP"))
    if kind == "date-value":
        d = dt.date.fromisoformat(a["d"])
        return Spec(f"{fn}({{0}})", dt.datetime(d.year, d.month, d.day), "TIMESTAMP_NTZ", args=[(f"{sql_str(a['d'])}::DATE", True)], edge=True, supported=(fn == "TO_TIMESTAMP"))
    n = a["n"]
    if kind == "int":
        return Spec(f"{fn}({{0}})", sfref.to_timestamp_from_int(n), "TIMESTAMP_NTZ", args=[(str(n), True)], edge=n <= 0, supported=(fn == "TO_TIMESTAMP"))
    sc = a["scale"]
    return Spec(f"{fn}({{0}}, {sc})", sfref.to_timestamp_from_int(n, sc), "TIMESTAMP_NTZ", args=[(str(n), True)], edge=True, supported=False)


def b_to_decimal(a):
    fn, x, nargs, p, s = a["fn"], a["x"], a["nargs"], a["p"], a["s"]
    is_try = fn.startswith("TRY_")
    pp, ss = (p if nargs >= 2 else 38), (s if nargs >= 3 else 0)
    if not 0 <= ss <= pp <= 38:
        raise InvalidCase()
    numeric = re.fullmatch(r"-?\d+(\.\d+)?", x) is not None
    as_number = a["as"] == "number" and numeric and not is_try  # TRY_ takes strings only
    if a["fmt"]:
        args = [(sql_str(x), True), (sql_str("999.99"), False)]
        return Spec(f"{fn}({{0}}, {{1}})", None, "NUMBER", args=args, supported=False)
    try:
        exp = sfref.to_decimal(x if not as_number else Decimal(x), pp, ss)
        rej = False
    except Reject:
        exp, rej = None, not is_try
    supported = x not in ("1e2", " 12 ", "1,000")  # exponent / padded / grouped text: format-dependent in Snowflake
    args = [((x if as_number else sql_str(x)), True)] + [(str(v), False) for v in ([pp] if nargs == 2 else [pp, ss] if nargs == 3 else [])]
    expr = f"{fn}(" + ", ".join("{%d}" % i for i in range(len(args))) + ")"
    mid = bool(re.search(r"\.(\d*?)(5|50|500)$", x))
    return Spec(expr, exp, f"NUMBER({pp},{ss})", args=args, reject=rej, supported=supported, edge=mid or rej or exp is None or as_number)


def _part_spelling(part, alias):
    al = sfref.DATE_PARTS[part]
    return al[alias % len(al)]


def b_dateadd(a):
    part, n, xkind = a["part"], a["n"], a["xkind"]
    d, t = dt.date.fromisoformat(a["d"]), dt.datetime.fromisoformat(a["t"])
    sp = _part_spelling(part, a["alias"])
    if xkind == "date":
        x, lit = d, f"{sql_str(a['d'])}::DATE"
    elif xkind == "timestamp":
        x, lit = t, f"{sql_str(a['t'])}::TIMESTAMP_NTZ"
    elif xkind == "string-date":
        x, lit = dt.datetime(d.year, d.month, d.day), sql_str(a["d"])  # string literals are implicitly cast to timestamps
    else:
        x, lit = t, sql_str(a["t"])
    try:
        exp = sfref.dateadd(part, n, x)
    except Reject:
        raise InvalidCase() from None
    rtype = "DATE" if (xkind == "date" and part in sfref.DATE_UNITS) else "TIMESTAMP_NTZ"
    edge = (part in ("month", "quarter", "year") and x.day >= 28) or (x.year < 1970) != (exp.year < 1970) or n == 0 or a["alias"] > 0
    return Spec(f"DATEADD({sp}, {n}, {{0}})", exp, rtype, args=[(lit, not xkind.startswith("string"))], edge=edge)


def b_datediff(a):
    part, kind = a["part"], a["kind"]
    ta, tb = dt.datetime.fromisoformat(a["a"]), dt.datetime.fromisoformat(a["b"])
    if a["near"] is not None:
        try:
            tb = ta + dt.timedelta(microseconds=a["near"])
        except OverflowError:
            raise InvalidCase() from None
    sp = _part_spelling(part, a["alias"])
    if kind == "date":
        xa, xb = ta.date(), tb.date()
        la, lb = f"'{xa.isoformat()}'::DATE", f"'{xb.isoformat()}'::DATE"
    elif kind == "timestamp":
        xa, xb = ta, tb
        la, lb = f"'{ta.isoformat(sep=' ')}'::TIMESTAMP_NTZ", f"'{tb.isoformat(sep=' ')}'::TIMESTAMP_NTZ"
    else:
        xa, xb = ta, tb
        la, lb = f"'{ta.isoformat(sep=' ')}'", f"'{tb.isoformat(sep=' ')}'"
    exp = sfref.datediff(part, xa, xb)
    return Spec(f"DATEDIFF({sp}, {{0}}, {{1}})", exp, "INT", args=[(la, kind != "string"), (lb, kind != "string")], edge=a["near"] is not None or a["alias"] > 0 or (xa.year < 1970) != (xb.year < 1970))


def b_sha2(a):
    fn, s, bits = a["fn"], a["s"], a["bits"]
    b = bits or 256
    hexd = sfref.sha2_hex(s, b)
    exp = hexd if fn != "SHA2_BINARY" else (bytes.fromhex(hexd) if hexd is not None else None)
    args = [(_lit(s, "VARCHAR"), True)] + ([(str(bits), False)] if bits is not None else [])
    return Spec(f"{fn}(" + ", ".join("{%d}" % i for i in range(len(args))) + ")", exp, "BINARY" if fn == "SHA2_BINARY" else "VARCHAR", args=args, supported=(b == 256), edge=s is None or bits is not None or (s is not None and any(ord(ch) > 127 for ch in s)))


def b_equal_null(a):
    x, y = a["a"], a["b"]
    if x is not None and y is not None and type(x) is not type(y):
        raise InvalidCase()
    typ = "VARCHAR" if isinstance(x if x is not None else y, str) else "INT"
    exp = (x is None and y is None) or (x is not None and y is not None and x == y)
    return Spec("EQUAL_NULL({0}, {1})", exp, "BOOLEAN", args=[(_lit(x, typ), True), (_lit(y, typ), True)], edge=x is None or y is None)


# ------------------------------------------------------------------ embedding an expression in a context


def _expected_literal(v, rtype):
    if v is None:
        return "NULL"
    if rtype == "ARRAY":
        return None
    if isinstance(v, bool):
        return "TRUE" if v else "FALSE"
    if isinstance(v, dt.datetime):
        return f"'{v.isoformat(sep=' ')}'::TIMESTAMP_NTZ"
    if isinstance(v, dt.date):
        return f"'{v.isoformat()}'::DATE"
    if isinstance(v, bytes):
        return None
    if isinstance(v, Decimal):
        return format(v, "f")
    return sql_lit(v)


def _check_value(ctx: Ctx, sig_base: str, got, spec: Spec, where: str) -> None:
    exp = spec.expected
    if spec.rtype == "ARRAY":
        if exp is None:
            ok = got is None
        else:
            try:
                ok = isinstance(got, str) and json.loads(got) == exp
            except ValueError:
                ok = False
        if not ok:
            ctx.fail(f"{sig_base}|wrong-value", f"{where}: got {got!r}, documented {exp!r}")
        return
    if isinstance(exp, Decimal) or (spec.rtype.startswith("NUMBER") and exp is not None):
        scale = int(spec.rtype[spec.rtype.index(",") + 1 : -1]) if "," in spec.rtype else 0
        if isinstance(got, (int, Decimal)) and not isinstance(got, bool) and Decimal(got) == exp:
            if scale == 0 and isinstance(got, Decimal):
                ctx.fail("C10|number-scale0-returned-as-Decimal", f"{where}: {got!r}")
            elif scale > 0 and not isinstance(got, Decimal):
                ctx.fail(f"{sig_base}|wrong-type|{type(got).__name__}", f"{where}: {got!r}")
            return
        ctx.fail(f"{sig_base}|wrong-value", f"{where}: got {got!r}, documented {exp!r}")
        return
    if same_value(got, exp):
        return
    if isinstance(got, dt.datetime) and isinstance(exp, dt.datetime) and got.tzinfo is not None and exp.tzinfo is None and got.replace(tzinfo=None) == exp:
        ctx.fail(f"{sig_base}|wrong-type|tz-aware-datetime", f"{where}: got {got!r}, documented {exp!r}")
        return
    if got is not None and exp is not None and type(got) is not type(exp):
        if isinstance(got, dt.datetime) and isinstance(exp, dt.datetime) and got.tzinfo is not None and got.replace(tzinfo=None) == exp:
            ctx.fail(f"{sig_base}|wrong-type|tz-aware-datetime", f"{where}: got {got!r}, documented {exp!r}")
        elif isinstance(got, dt.datetime) and type(exp) is dt.date and got == dt.datetime(exp.year, exp.month, exp.day):
            ctx.fail(f"{sig_base}|wrong-type|timestamp-instead-of-date", f"{where}: got {got!r}, documented {exp!r}")
        else:
            ctx.fail(f"{sig_base}|wrong-type|{type(got).__name__}-for-{type(exp).__name__}", f"{where}: got {got!r}, documented {exp!r}")
    else:
        ctx.fail(f"{sig_base}|wrong-value", f"{where}: got {got!r}, documented {exp!r}")


def _embed_and_check(case, spec: Spec, ctx: Ctx, conn) -> None:
    construct, form, context = case["c"], case["form"], case["ctx"]
    disc = case.get("disc", "")
    sig_base = f"C10|{construct}{disc}"
    cur = conn.cursor()
    # argument form
    if form == "column" and any(col for _, col in spec.args):
        cols, names = [], []
        for i, (lit, may) in enumerate(spec.args):
            if may:
                cols.append(f"{lit} AS A{i}")
                names.append(f"A{i}")
            else:
                names.append(lit)
        expr = spec.expr.format(*names)
        frm = f" FROM (SELECT {', '.join(cols)}) T"
    else:
        form = "literal"
        expr = spec.expr.format(*[lit for lit, _ in spec.args])
        frm = ""
    exp_lit = _expected_literal(spec.expected, spec.rtype)
    if context == "where" and (exp_lit is None or spec.reject):
        context = "select"
    if context == "insert" and spec.rtype in ("ARRAY",):
        context = "select"
    ctx.cls(f"{construct}:{context}", f"{construct}:{form}")
    if isinstance(case.get("a"), dict) and case["a"].get("inner"):
        ctx.cls(f"{construct}:subject-is-{case['a']['inner']['c']}-call")
    stmts: list[str]
    if context == "select":
        stmts = [f"SELECT {expr} AS R{frm}"]
    elif context == "nested":
        stmts = [f"SELECT COALESCE({expr}, {expr}) AS R{frm}"]
    elif context == "where":
        stmts = [f"SELECT 'hit' AS R{frm or ''} WHERE ({expr}) IS NOT DISTINCT FROM {exp_lit}"]
    elif context == "cte":
        stmts = [f"WITH c AS (SELECT {expr} AS R{frm}) SELECT R FROM c"]
    elif context == "subquery":
        stmts = [f"SELECT R FROM (SELECT {expr} AS R{frm}) q WHERE 1 = 1"]
    elif context == "view":
        stmts = [f"CREATE OR REPLACE VIEW VX AS SELECT {expr} AS R{frm}", "SELECT R FROM VX"]
    elif context == "insert":
        typ = {"INT": "INT", "ARRAY": "VARIANT"}.get(spec.rtype, spec.rtype)
        stmts = [f"CREATE OR REPLACE TABLE TX (R {typ})", f"INSERT INTO TX SELECT {expr}{frm}", "SELECT R FROM TX"]
    else:
        raise InvalidCase()
    where = f"[{context}/{form}] {stmts[-2] if context in ('view', 'insert') and len(stmts) > 1 else stmts[0]}"
    o = None
    for sql in stmts:
        o = run(cur, sql)
        if not o.ok:
            break
    if not o.ok:
        explicit = isinstance(o.exc, (NotImplementedError, snowflake.connector.errors.ProgrammingError))
        if spec.reject:
            return  # Snowflake raises too
        if not spec.supported:
            ctx.rejected += 1
            return
        if explicit and isinstance(o.exc, NotImplementedError):
            ctx.rejected += 1
            ctx.fail(f"{sig_base}|rejected-inside-supported-domain|{form}", f"{where}: {o}")
            return
        ctx.fail(f"{sig_base}|raises|{o.etype}", f"{where}: {o}")
        return
    if spec.reject:
        ctx.fail(f"{sig_base}|answered-where-snowflake-raises", f"{where}: returned {o.rows!r}")
        return
    if context == "where":
        if o.rows != [("hit",)]:
            ctx.fail(f"{sig_base}|wrong-value|in-where", f"{where}: predicate did not hold (rows {o.rows!r}); documented value {spec.expected!r}")
        return
    if len(o.rows) != 1 or len(o.rows[0]) != 1:
        ctx.fail(f"{sig_base}|wrong-shape", f"{where}: {o.rows!r}")
        return
    _check_value(ctx, sig_base + (f"|ctx={context}" if context in ("insert", "view") else ""), o.rows[0][0], spec, where)


BUILDERS = {
    "regexp_replace": b_regexp_replace,
    "regexp_substr": b_regexp_substr,
    "split": b_split,
    "trim": b_trim,
    "to_date": b_to_date,
    "to_timestamp": b_to_timestamp,
    "to_decimal": b_to_decimal,
    "dateadd": b_dateadd,
    "datediff": b_datediff,
    "sha2": b_sha2,
    "equal_null": b_equal_null,
}


def _disc(case) -> str:
    """Finer discriminator so that distinct root causes of one construct get distinct signatures."""
    c, a = case["c"], case["a"]
    if c == "trim":
        return f"|{a['fn']}|{'chars' if a['chars'] is not None else 'default'}"
    if c == "regexp_substr":
        n = a["nargs"]
        return "|e-param" if n >= 5 and "e" in (a["params"] or "") and (n < 6 or a["grp"] is None) else ""
    if c == "split":
        return "|empty-separator" if a["sep"] == "" else ""
    if c == "dateadd":
        return f"|{a['part']}|{a['xkind']}|{case['form'] if a['xkind'] in ('date', 'timestamp') else 'literal'}-argument"
    if c == "datediff":
        pre = min(a["a"], a["b"] if a["near"] is None else a["a"]) < "1970-01-02" or (a["near"] is not None and a["a"] < "1970-01-03")
        return f"|{a['part']}|{'pre-epoch-operand' if pre else 'post-epoch'}"
    if c == "to_timestamp":
        return f"|{a['fn']}|{a['kind']}|{'negative' if a['kind'].startswith('int') and a['n'] < 0 else 'nonneg'}|{case['form']}-argument"
    if c == "to_decimal":
        extra = ""
        try:
            pp, ss = (a["p"] if a["nargs"] >= 2 else 38), (a["s"] if a["nargs"] >= 3 else 0)
            d = Decimal(a["x"])
            if d.copy_abs() < Decimal(10) ** (pp - ss):
                try:
                    sfref.to_decimal(a["x"], pp, ss)
                except Reject:
                    extra = "|rounds-up-out-of-range"
        except Exception:
            pass
        return f"|{'TRY' if a['fn'].startswith('TRY_') else 'plain'}|{a['as']}{extra}"
    if c == "to_date":
        return f"|{a['kind']}"
    if c == "sha2":
        return f"|{a['fn']}"
    return ""


def run_expression(case, ctx: Ctx) -> None:
    construct = case["c"]
    if construct not in BUILDERS or case.get("form") not in ("literal", "column") or case.get("ctx") not in CONTEXTS:
        raise InvalidCase()
    try:
        spec = BUILDERS[construct](case["a"])
    except (KeyError, TypeError, ValueError, IndexError):
        raise InvalidCase() from None
    case = dict(case, disc=_disc(case))
    fs = new_instance()
    try:
        conn = fs.connect("db1", "s1")
        _embed_and_check(case, spec, ctx, conn)
        ctx.nontrivial = spec.edge or case["ctx"] != "select"
    finally:
        close_instance(fs)


# ------------------------------------------------------------------ script-style constructs


def run_script_construct(case, ctx: Ctx) -> None:
    c, a = case["c"], case["a"]
    fs = new_instance()
    try:
        conn = fs.connect("db1", "s1")
        cur = conn.cursor()
        if c == "random":
            seed, n = a["seed"], a["n"]
            sql = f"SELECT RANDOM({seed}) AS R" + "".join(f", RANDOM({seed}) AS R{i}" for i in range(1, n))
            shape = ("negative-seed" if seed < 0 else "nonneg-seed") + ("|several-calls" if n > 1 else "|one-call")
            o1, o2 = run(cur, sql), run(conn.cursor(), sql)
            fs2 = new_instance()
            try:
                o3 = run(fs2.connect("db1", "s1").cursor(), sql)
            finally:
                close_instance(fs2)
            ctx.cls("random:seeded")
            ctx.nontrivial = True
            if not (o1.ok and o2.ok and o3.ok):
                ctx.fail(f"C10|random|raises|{(o1 if not o1.ok else o2 if not o2.ok else o3).etype}|{shape}", f"{sql}: {o1} {o2} {o3}")
                return
            if o1.rows != o2.rows:
                ctx.fail(f"C10|random|not-deterministic|same-session|{shape}", f"{sql}: {o1.rows} then {o2.rows}")
            if o1.rows != o3.rows:
                ctx.fail(f"C10|random|not-deterministic|across-instances|{shape}", f"{sql}: {o1.rows} vs {o3.rows}")
            v = o1.rows[0][0]
            if not isinstance(v, int) or isinstance(v, bool) or not -(2**63) <= v < 2**63:
                ctx.fail("C10|random|not-int64", f"{v!r}")
            o4 = run(cur, f"SELECT RANDOM({seed + 1 if seed < 2**31 - 1 else seed - 1}) AS R")
            if o4.ok and o4.rows[0][0] == v:
                ctx.fail("C10|random|seed-ignored", f"seeds {seed} and neighbour give {v}")
        elif c == "sample":
            seed, p, nrows = a["seed"], a["p"], a["rows"]
            cur.execute("CREATE TABLE ST (K INT)")
            if nrows:
                cur.execute("INSERT INTO ST VALUES " + ", ".join(f"({i})" for i in range(nrows)))
            sql = f"SELECT K FROM ST SAMPLE ({p}) SEED ({seed})"
            o1, o2 = run(cur, sql), run(conn.cursor(), sql)
            ctx.cls(f"sample:p={p}")
            ctx.nontrivial = True
            if not (o1.ok and o2.ok):
                ctx.fail(f"C10|sample|raises|{(o1 if not o1.ok else o2).etype}", f"{sql}: {o1}")
                return
            ks = [r[0] for r in o1.rows]
            if sorted(ks) != sorted(r[0] for r in o2.rows):
                ctx.fail("C10|sample|not-deterministic", f"{sql}: {sorted(ks)} then {sorted(r[0] for r in o2.rows)}")
            if len(set(ks)) != len(ks) or not set(ks) <= set(range(nrows)):
                ctx.fail("C10|sample|not-a-subset", f"{ks}")
            if p == 0 and ks:
                ctx.fail("C10|sample|p0-not-empty", f"{ks}")
            if p == 100 and len(ks) != nrows:
                ctx.fail("C10|sample|p100-not-all", f"{len(ks)} of {nrows}")
        elif c == "identifier":
            lvl, use = a["level"], a["use"]
            for s_ in ["CREATE TABLE T1 (K INT, V VARCHAR)", "INSERT INTO T1 VALUES (1, 'a'), (2, 'b')", "CREATE TABLE T2 (K INT)", "INSERT INTO T2 VALUES (2), (3)"]:
                cur.execute(s_)
            name = {1: "T1", 2: "S1.T1", 3: "DB1.S1.T1"}[lvl]
            name = name if a["case"] == "upper" else name.lower()
            ident = f"IDENTIFIER({sql_str(name)})"
            tw = new_instance()
            try:
                tcur = tw.connect("db1", "s1").cursor()
                for s_ in ["CREATE TABLE T1 (K INT, V VARCHAR)", "INSERT INTO T1 VALUES (1, 'a'), (2, 'b')", "CREATE TABLE T2 (K INT)", "INSERT INTO T2 VALUES (2), (3)"]:
                    tcur.execute(s_)
                tpl = {
                    "from": "SELECT K, V FROM {n} ORDER BY K",
                    "insert": "INSERT INTO {n} VALUES (9, 'z')",
                    "update": "UPDATE {n} SET V = 'u' WHERE K = 1",
                    "delete": "DELETE FROM {n} WHERE K = 2",
                    "join": "SELECT x.K FROM {n} x JOIN T2 ON x.K = T2.K ORDER BY 1",
                }[use]
                oa, ob = run(cur, tpl.format(n=ident)), run(tcur, tpl.format(n=name))
                ctx.cls(f"identifier:{use}:level{lvl}")
                ctx.nontrivial = use != "from" or lvl > 1
                if not oa.ok:
                    ctx.fail(f"C10|identifier|raises|{oa.etype}|{use}|level={lvl}", f"{tpl.format(n=ident)}: {oa}")
                    return
                if (oa.ok, repr(oa.rows)) != (ob.ok, repr(ob.rows)):
                    ctx.fail(f"C10|identifier|differs-from-bare-name|{use}", f"{tpl.format(n=ident)}: {oa} vs bare {ob}")
                fa, fb = run(cur, "SELECT K, V FROM T1 ORDER BY K"), run(tcur, "SELECT K, V FROM T1 ORDER BY K")
                if repr(fa.rows) != repr(fb.rows):
                    ctx.fail(f"C10|identifier|effect-differs-from-bare-name|{use}", f"{fa.rows} vs {fb.rows}")
            finally:
                close_instance(tw)
        elif c == "values":
            rows, pick, use = a["rows"], a["pick"], a["use"]
            ncols = len(rows[0])
            if any(len(r) != ncols for r in rows) or not 1 <= pick <= ncols:
                raise InvalidCase()
            vals = ", ".join("(" + ", ".join(str(v) for v in r) + ")" for r in rows)
            col = f"COLUMN{pick}"
            ctx.cls(f"values:{use}")
            ctx.nontrivial = use != "select" or pick > 1
            if use == "select":
                sql, want = f"SELECT {col} FROM VALUES {vals}", [r[pick - 1] for r in rows]
            elif use == "where":
                sql, want = f"SELECT {col} FROM VALUES {vals} WHERE {col} >= 0", [r[pick - 1] for r in rows if r[pick - 1] >= 0]
            elif use == "order":
                sql, want = f"SELECT COLUMN1 FROM VALUES {vals} ORDER BY {col}, COLUMN1", None
            else:
                sql, want = f"SELECT {col} * 2 + COLUMN1 FROM VALUES {vals}", [r[pick - 1] * 2 + r[0] for r in rows]
            o = run(cur, sql)
            if not o.ok:
                ctx.fail(f"C10|values|raises|{o.etype}|{use}", f"{sql}: {o}")
                return
            got = [r[0] for r in o.rows]
            if use == "order":
                want = [r[0] for r in sorted(rows, key=lambda r: (r[pick - 1], r[0]))]
                if got != want:
                    ctx.fail("C10|values|wrong-value|order", f"{sql}: {got} want {want}")
            elif sorted(got) != sorted(want):
                ctx.fail(f"C10|values|wrong-value|{use}", f"{sql}: {got} want {want}")
            try:
                names = [c_.name for c_ in cur.description]
                if use == "select" and names != [col]:
                    ctx.fail("C10|values|column-name", f"{names}")
            except Exception as e:
                ctx.fail(f"C10|values|description-raises|{etype_name(e)}", str(e))
        elif c == "array_agg":
            rows, distinct, order, mode = a["rows"], a["distinct"], a["order"], a["mode"]
            cur.execute("CREATE TABLE AG (G VARCHAR, X INT)")
            if rows:
                cur.execute("INSERT INTO AG VALUES " + ", ".join(f"({sql_str(g)}, {_lit(x)})" for g, x in rows))
            if distinct and order:
                order = None  # Snowflake restricts DISTINCT + WITHIN GROUP to the same column; keep to the plain forms
            inner = f"ARRAY_AGG({'DISTINCT ' if distinct else ''}X)" + (f" WITHIN GROUP (ORDER BY X {order.upper()})" if order else "")

            def ref(vals):
                xs = [v for v in vals if v is not None]
                if distinct:
                    xs = list(dict.fromkeys(xs))
                if order:
                    xs = sorted(xs, reverse=(order == "desc"))
                return xs

            ctx.cls(f"array_agg:{mode}:{'distinct' if distinct else 'all'}:{order or 'unordered'}")
            has_null = any(x is None for _, x in rows)
            ctx.nontrivial = has_null or mode != "all" or distinct or bool(order)
            disc = "within-group" if order else "plain"
            if mode in ("all", "empty"):
                sql = f"SELECT {inner} AS A FROM AG" + (" WHERE X > 100" if mode == "empty" else "")
                want = {None: ref([x for _, x in rows] if mode == "all" else [])}
            elif mode == "group":
                sql = f"SELECT G, {inner} AS A FROM AG GROUP BY G"
                want = {g: ref([x for g2, x in rows if g2 == g]) for g in {g for g, _ in rows}}
            else:
                if distinct or order:
                    raise InvalidCase()
                sql = "SELECT DISTINCT G, ARRAY_AGG(X) OVER (PARTITION BY G) AS A FROM AG"
                want = {g: ref([x for g2, x in rows if g2 == g]) for g in {g for g, _ in rows}}
            o = run(cur, sql)
            if not o.ok:
                ctx.fail(f"C10|array_agg|raises|{o.etype}|{disc}", f"{sql}: {o}")
                return
            got = {}
            for r in o.rows:
                key, val = (None, r[0]) if mode in ("all", "empty") else (r[0], r[1])
                if val is None:
                    got[key] = None
                else:
                    try:
                        got[key] = json.loads(val) if isinstance(val, str) else ("<not json text>", val)
                    except ValueError:
                        got[key] = ("<not json>", val)
            for key, w in want.items():
                g = got.get(key, "<missing>")
                ok = g == w if order else (isinstance(g, list) and sorted(g) == sorted(w))
                if not ok:
                    why = "null-instead-of-empty-array" if g is None and w == [] else ("nulls-kept" if isinstance(g, list) and None in g else "wrong-value")
                    ctx.fail(f"C10|array_agg|{why}|{disc}", f"{sql} over {rows}: group {key!r} -> {g!r}, documented {w!r}")
        elif c == "alias_in_join":
            left, right, ex = a["left"], a["right"], a["expr"]
            cur.execute("CREATE TABLE L (A INT)")
            cur.execute("CREATE TABLE R (B INT)")
            cur.execute("INSERT INTO L VALUES " + ", ".join(f"({v})" for v in left))
            cur.execute("INSERT INTO R VALUES " + ", ".join(f"({v})" for v in right))
            e = {"plus1": "L.A + 1", "times2": "L.A * 2", "plain": "L.A"}[ex]
            f = {"plus1": lambda v: v + 1, "times2": lambda v: v * 2, "plain": lambda v: v}[ex]
            sql = f"SELECT {e} AS X, R.B FROM L JOIN R ON X = R.B ORDER BY 1, 2"
            want = sorted((f(v), b) for v in left for b in right if f(v) == b)
            o = run(cur, sql)
            ctx.cls(f"alias_in_join:{ex}")
            ctx.nontrivial = True
            if not o.ok:
                ctx.fail(f"C10|alias_in_join|raises|{o.etype}|{ex}", f"{sql}: {o}")
            elif [tuple(r) for r in o.rows] != want:
                ctx.fail(f"C10|alias_in_join|wrong-value|{ex}", f"{sql} over L={left} R={right}: {o.rows} want {want}")
        else:
            raise InvalidCase()
    finally:
        close_instance(fs)


# ------------------------------------------------------------------ casts (expression-style, own builder)


def b_cast(a):
    target, src, n, frac, op = a["target"], a["src"], a["n"], a["frac"], a["op"]
    d, t = dt.date.fromisoformat(a["d"]), dt.datetime.fromisoformat(a["t"])
    dec_txt = f"{n}.{frac}"
    if src == "int":
        val, lit = n, str(n)
    elif src in ("decimal", "midpoint"):
        val, lit = Decimal(dec_txt), dec_txt
    elif src == "decimal-string":
        val, lit = dec_txt, sql_str(dec_txt)
    elif src == "int-string":
        val, lit = str(n), sql_str(str(n))
    elif src == "float":
        val = float(n) + {"5": 0.5, "25": 0.25, "75": 0.75}.get(frac, 0.0)
        lit = f"{val!r}::FLOAT"
    elif src == "date":
        val, lit = d, f"'{d.isoformat()}'::DATE"
    elif src == "timestamp":
        val, lit = t, f"'{t.isoformat(sep=' ')}'::TIMESTAMP_NTZ"
    elif src == "date-string":
        val, lit = d.isoformat(), sql_str(d.isoformat())
    elif src == "bool":
        val, lit = n % 2 == 0, "TRUE" if n % 2 == 0 else "FALSE"
    else:
        raise InvalidCase()
    numeric_src = isinstance(val, (int, float, Decimal)) and not isinstance(val, bool)
    numeric_text = isinstance(val, str) and re.fullmatch(r"-?\d+(\.\d+)?", val) is not None
    exp, rtype, supported = None, target, True
    if target in ("INT", "NUMBER(10,2)", "NUMBER(5,0)", "NUMBER(38,10)"):
        p, s = {"INT": (38, 0), "NUMBER(10,2)": (10, 2), "NUMBER(5,0)": (5, 0), "NUMBER(38,10)": (38, 10)}[target]
        rtype = f"NUMBER({p},{s})"
        if not (numeric_src or numeric_text):
            raise InvalidCase()
        try:
            exp = sfref.to_decimal(val, p, s)
        except Reject:
            raise InvalidCase() from None
    elif target == "FLOAT":
        if not (numeric_src or numeric_text):
            raise InvalidCase()
        exp = float(val)
        if isinstance(val, Decimal) and Decimal(repr(exp)) != val:
            raise InvalidCase()
    elif target == "VARCHAR":
        if isinstance(val, bool):
            exp = "true" if val else "false"
        elif isinstance(val, float):
            raise InvalidCase()  # float text formatting is not pinned down
        elif isinstance(val, dt.datetime):
            raise InvalidCase()  # depends on TIMESTAMP_NTZ_OUTPUT_FORMAT: not asserted
        elif isinstance(val, dt.date):
            exp = val.isoformat()
        else:
            exp = str(val)
    elif target == "DATE":
        if isinstance(val, dt.datetime):
            exp = val.date()
        elif isinstance(val, dt.date):
            exp = val
        elif src == "date-string":
            exp = d
        else:
            raise InvalidCase()
    elif target in ("TIMESTAMP_NTZ", "TIMESTAMP"):
        rtype = "TIMESTAMP_NTZ"
        if isinstance(val, dt.datetime):
            exp = val
        elif isinstance(val, dt.date) or src == "date-string":
            exp = dt.datetime(d.year, d.month, d.day)
        else:
            raise InvalidCase()
    elif target == "BOOLEAN":
        if isinstance(val, bool):
            exp = val
        elif src == "int":
            exp = n != 0
        else:
            raise InvalidCase()
    if op == "::":
        expr = "({0})::" + target
    elif op == "CAST":
        expr = f"CAST({{0}} AS {target})"
    else:
        if not isinstance(val, str):
            raise InvalidCase()  # TRY_CAST takes strings only in Snowflake
        expr = f"TRY_CAST({{0}} AS {target})"
    mid = src in ("decimal", "midpoint", "decimal-string", "float") and target in ("INT", "NUMBER(10,2)", "NUMBER(5,0)")
    return Spec(expr, exp, rtype, args=[(lit, True)], supported=supported, edge=mid or src in ("date", "timestamp", "date-string"))


BUILDERS["cast"] = b_cast


def _disc_cast(case):
    a = case["a"]
    return f"|{a['src']}->{a['target']}"


_old_disc = _disc


def _disc(case):  # noqa: F811
    return _disc_cast(case) if case["c"] == "cast" else _old_disc(case)


def _selftest() -> None:
    sfref.selftest()
    s = b_regexp_substr({"s": "abc abd abe", "p": "ab(.)", "pos": 5, "occ": 1, "params": "e", "grp": None, "nargs": 5})
    assert s.expected == "d" and s.expr.count("{") == 5
    assert b_trim({"fn": "LTRIM", "s": "xxa", "chars": "x"}).expected == "a"
    assert b_dateadd({"part": "month", "alias": 0, "n": 1, "xkind": "date", "d": "2020-01-31", "t": "2020-01-01 00:00:00"}).expected == dt.date(2020, 2, 29)
    assert b_cast({"target": "INT", "src": "decimal", "n": 2, "frac": "5", "d": "2020-01-01", "t": "2020-01-01 00:00:00", "op": "::"}).expected == Decimal("3")
    assert b_cast({"target": "NUMBER(10,2)", "src": "midpoint", "n": -2, "frac": "565", "d": "2020-01-01", "t": "2020-01-01 00:00:00", "op": "::"}).expected == Decimal("-2.57")
    assert b_to_decimal({"fn": "TO_NUMBER", "x": "98.76546", "as": "string", "p": 10, "s": 1, "nargs": 3, "fmt": False}).expected == Decimal("98.8")


def _expr_facet(name, quick=350, thorough=3000):
    return Facet(
        name=name,
        strategy=lambda tier, _n=name: _case(_n),
        run=run_expression,
        rule=f"{name}: generated arguments (edge-biased, NULLs) x argument form (literal / column of a one-row source) x context (select list, WHERE ... IS NOT DISTINCT FROM expected, nested call, CTE, sub-query, VIEW, INSERT..SELECT into a typed column); reference = vf/model/sfref.py",
        quick=quick,
        thorough=thorough,
        quick_shards=2,
        thorough_shards=4,
        budget_quick=40,
    )


def _script_facet(name, quick=200, thorough=2000):
    return Facet(
        name=name,
        strategy=lambda tier, _n=name: _case(_n),
        run=run_script_construct,
        rule=f"{name}: generated scenario against a Python reference / a twin using the plain spelling",
        quick=quick,
        thorough=thorough,
        quick_shards=1,
        thorough_shards=2,
        budget_quick=40,
    )


PROP = Prop(
    id="C10",
    selftest=_selftest,
    facets=[_expr_facet(n) for n in ["regexp_replace", "regexp_substr", "split", "trim", "to_date", "to_timestamp", "to_decimal", "dateadd", "datediff", "sha2", "equal_null", "cast"]]
    + [_script_facet(n) for n in ["random", "sample", "identifier", "values", "array_agg", "alias_in_join"]],
    assumptions=[
        "the oracle is an encoding of Snowflake's documented semantics (vf/model/sfref.py), self-tested on documented examples and on expectations the repo's tests pin; no real Snowflake is consulted",
        "regex patterns come from a sub-grammar on which RE2, POSIX ERE and Python agree and that cannot match the empty string; subjects are ASCII",
        "forms documented by Snowflake but not claimed by fakesnow (format arguments, digest sizes other than 256, TO_TIMESTAMP scale argument) may be rejected; only a wrong answer fails there",
        "NUMBER results of scale 0 returned as Decimal are reported under one signature (same root cause as the C01 finding)",
    ],
)
