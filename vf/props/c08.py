"""C08 — bound parameters arrive as data, whatever they contain."""

from __future__ import annotations

import datetime as dt
import re
from decimal import Decimal

import snowflake.connector
from hypothesis import strategies as st

from vf.engine import Ctx, Facet, InvalidCase, Prop
from vf.gen import values as gv
from vf.util import close_instance, dec, enc, etype_name, new_instance, run, same_value, snapshot, sql_lit, sql_str

STYLES = ["pyformat", "pyformat_dict", "format", "qmark"]
COLS = [("S", "VARCHAR", "str"), ("I", "INT", "int"), ("F", "FLOAT", "float"), ("D", "NUMBER(38,10)", "dec"), ("B", "BOOLEAN", "bool"), ("DT", "DATE", "date"), ("TS", "TIMESTAMP_NTZ", "ts"), ("TM", "TIME", "time")]
KIND = {c: k for c, _, k in COLS}
TYPE = {c: t for c, t, _ in COLS}

_adv_str = gv.text(6, dollar=True)
_VALS = {
    "str": _adv_str,
    "int": gv.ints,
    # at most 15 significant digits: longer decimal renderings of a float are a listed C01 finding (parsed as DECIMAL, then off by an ulp)
    "float": st.one_of(st.integers(-(2**40), 2**40).map(lambda k: k / 8.0), st.sampled_from([0.0, 1.5, -2.25, 1e300, 5e-324, 0.1, 1e-7, 123456.789])),
    "dec": gv.decimals(28, 10),
    "bool": st.booleans(),
    "date": gv.dates,
    "ts": gv.timestamps,
    "time": gv.times,
}


def _val(kind):
    return st.one_of(st.none(), _VALS[kind], _VALS[kind], _VALS[kind]).map(enc)


HOSTILE = ["a\\b", "C:\\temp\\new", "\\", "it's", "O'Brien", "nope') or ('1'='1", "%s", "%(x)s", "$x", "a\nb", "\\n", "?", "';--", "100%", "", "plain"]
TEMPLATES = ["select_bare", "insert_typed", "update_where", "delete_where", "in_list", "in_list_str", "like", "with_variable", "with_literal_noise", "ctas"]


@st.composite
def _case(draw, tier):
    tpl = draw(st.sampled_from(TEMPLATES))
    style = draw(st.sampled_from(STYLES))
    case = {"style": style, "tpl": tpl, "flip_after_connect": draw(st.booleans())}
    if tpl == "select_bare":
        kinds = draw(st.lists(st.sampled_from(["str", "int", "bool", "str"]), min_size=1, max_size=5))
        case["vals"] = [[k, draw(_val(k))] for k in kinds]
    elif tpl in ("insert_typed",):
        cols = draw(st.lists(st.sampled_from([c for c, _, _ in COLS]), min_size=1, max_size=5, unique=True))
        case["rows"] = [[[c, draw(_val(KIND[c]))] for c in cols] for _ in range(draw(st.integers(1, 3)))]
    elif tpl == "update_where":
        case["pre"] = draw(st.lists(st.tuples(st.integers(0, 5), gv.text(6)).map(list), min_size=1, max_size=5))
        case["new"] = draw(_adv_str | st.none())
        case["key"] = draw(st.integers(0, 5))
    elif tpl == "delete_where":
        case["pre"] = draw(st.lists(st.tuples(st.integers(0, 5), gv.text(6)).map(list), min_size=1, max_size=5))
        case["needle"] = draw(st.one_of(_adv_str, st.sampled_from([p for p in ["a", "'", "' OR '1'='1", "x' OR 1=1 --"]])))
    elif tpl == "in_list":
        case["pre"] = draw(st.lists(st.tuples(st.integers(0, 8), st.just("")).map(list), min_size=1, max_size=6))
        case["list"] = draw(st.lists(st.integers(0, 8), min_size=1, max_size=4))
    elif tpl == "in_list_str":
        # (the rows are put there with literals, so they hold no `$`: `$name` inside a literal is a listed C15 finding; bound elements may)
        pool = draw(st.lists(st.one_of(st.sampled_from([h for h in HOSTILE if "$" not in h]), gv.text(6)), min_size=2, max_size=6))
        case["pre"] = [[i, v] for i, v in enumerate(pool)]
        case["slist"] = draw(st.lists(st.one_of(st.sampled_from(pool), st.sampled_from(HOSTILE)), min_size=1, max_size=4))
        case["as_tuple"] = draw(st.booleans())
    elif tpl == "like":
        case["pre"] = draw(st.lists(st.tuples(st.integers(0, 5), st.text(alphabet="ab%_x", max_size=4)).map(list), min_size=1, max_size=5))
        case["pattern"] = draw(st.text(alphabet="ab%_x", max_size=4))
    elif tpl == "with_variable":
        case["var"] = draw(st.integers(-100, 100))
        case["vals"] = [["str", draw(_val("str"))], ["int", draw(_val("int"))]]
    elif tpl == "with_literal_noise":
        case["vals"] = [["str", draw(_val("str"))]]
        case["noise"] = draw(st.sampled_from(["qmark-in-literal", "percent-in-literal", "trailing-comment", "block-comment"]))
    elif tpl == "ctas":
        case["vals"] = [["str", draw(_val("str"))], ["int", draw(_val("int"))]]
    return case


def _ph(style: str, n: int) -> list[str]:
    if style == "qmark":
        return ["?"] * n
    if style == "pyformat_dict":
        return [f"%(p{i})s" for i in range(n)]
    return ["%s"] * n


def _params(style: str, vals: list):
    if style == "pyformat_dict":
        return {f"p{i}": v for i, v in enumerate(vals)}
    if style == "qmark":
        return list(vals)
    return tuple(vals)


def _pct(style: str, text: str) -> str:
    """Literal % in the statement text must be doubled for the client-side (%-substituting) styles."""
    return text if style == "qmark" else text.replace("%", "%%")


def _twin_unsafe(v) -> bool:
    return isinstance(v, str) and re.search(r"\$\w", v) is not None


def _connect(style: str, flip: bool):
    old = snowflake.connector.paramstyle
    snowflake.connector.paramstyle = {"pyformat_dict": "pyformat"}.get(style, style)
    fs = new_instance()
    try:
        conn = fs.connect("db1", "s1")
    finally:
        snowflake.connector.paramstyle = old
    if flip:
        # the style in force is the one configured when the connection was made
        snowflake.connector.paramstyle = "qmark" if style != "qmark" else "pyformat"
    return fs, conn, old


def _adv_class(v) -> str | None:
    if isinstance(v, str):
        for ch, name in [("'", "quote"), ("\\", "backslash"), ("\n", "newline"), ("%", "percent"), ("$", "dollar"), ("?", "qmark"), (";", "semicolon"), ("--", "comment"), ("/*", "comment")]:
            if ch in v:
                return name
    return None


def run_bind(case, ctx: Ctx) -> None:
    style, tpl = case["style"], case["tpl"]
    if style not in STYLES or tpl not in TEMPLATES:
        raise InvalidCase()
    fs, conn, old = _connect(style, bool(case.get("flip_after_connect")))
    twin = new_instance()
    try:
        cur = conn.cursor()
        tconn = twin.connect("db1", "s1")
        tcur = tconn.cursor()
        ddl = "CREATE TABLE T (K INT, " + ", ".join(f"{c} {t}" for c, t, _ in COLS) + ")"
        for c_ in (cur, tcur):
            c_.execute(ddl)
            c_.execute("CREATE TABLE BYSTANDER (X INT)")
            c_.execute("INSERT INTO BYSTANDER VALUES (1)")
        ctx.cls(f"style:{style}", f"tpl:{tpl}")
        if case.get("flip_after_connect"):
            ctx.cls("paramstyle-flipped-after-connect")
        sig = lambda what: f"C08|{tpl}|{what}|{style}"  # noqa: E731
        objs0 = snapshot(fs, rows=False)["tables"]

        def both(sql_tpl: str, vals: list, literal_sql: str | None, fetch=True):
            """Execute with bound params on the instance and (when sound) with rendered literals on the twin."""
            o = run(cur, sql_tpl, _params(style, vals) if vals else None)
            t = None
            if literal_sql is not None and not any(_twin_unsafe(v) for v in vals):
                t = run(tcur, literal_sql)
            elif literal_sql is not None:
                ctx.excluded += 1
            for v in vals:
                a = _adv_class(v)
                if a:
                    ctx.cls(f"special:{a}")
                    ctx.nontrivial = True
            return o, t

        if tpl == "select_bare":
            vals = [dec(v) for _, v in case["vals"]]
            ph = _ph(style, len(vals))
            sql = "SELECT " + ", ".join(f"{p} AS C{i}" for i, p in enumerate(ph))
            lit = "SELECT " + ", ".join(f"{sql_lit(v)} AS C{i}" for i, v in enumerate(vals))
            o, t = both(sql, vals, lit)
            if not o.ok:
                ctx.fail(sig(f"raises|{o.etype}"), f"{sql} {vals!r}: {o}")
            else:
                if len(o.rows) != 1 or len(o.rows[0]) != len(vals) or not all(same_value(g, w) for g, w in zip(o.rows[0], vals)):
                    ctx.fail(sig("wrong-value"), f"{sql} {vals!r} returned {o.rows!r}")
                if t is not None and (not t.ok or repr(t.rows) != repr(o.rows)):
                    ctx.fail(sig("differs-from-literal-twin"), f"bound: {o.rows!r} literal `{lit}`: {t}")
        elif tpl == "insert_typed":
            for ri, row in enumerate(case["rows"]):
                cols = [c for c, _ in row]
                if any(c not in KIND for c in cols) or len(set(cols)) != len(cols):
                    raise InvalidCase()
                vals = [ri] + [dec(v) for _, v in row]
                ph = _ph(style, len(vals))
                sql = f"INSERT INTO T (K, {', '.join(cols)}) VALUES ({', '.join(ph)})"
                o, _ = both(sql, vals, None)
                if not o.ok:
                    ctx.fail(sig(f"raises|{o.etype}|{'+'.join(sorted({KIND[c] for c, v in row if v is not None})) or 'null'}"), f"{sql} {vals!r}: {o}")
                    return
                if o.rows != [(1,)]:
                    ctx.fail(sig("wrong-count"), f"{o.rows!r}")
                if any(v is not None and KIND[c] in ("int", "dec", "float", "date", "ts", "time") for c, v in row):
                    ctx.nontrivial = True
            got = run(conn.cursor(), "SELECT K, " + ", ".join(c for c, _, _ in COLS) + " FROM T ORDER BY K")
            if not got.ok or len(got.rows) != len(case["rows"]):
                ctx.fail(sig("read-back"), f"{got}")
                return
            for ri, row in enumerate(case["rows"]):
                want = {c: dec(v) for c, v in row}
                for j, (c, _, k) in enumerate(COLS):
                    g, w = got.rows[ri][j + 1], want.get(c)
                    if not same_value(g, w):
                        ctx.fail(sig(f"wrong-value|{k}"), f"bound {w!r} into {c} {TYPE[c]}, read {g!r}")
        elif tpl in ("update_where", "delete_where", "in_list", "in_list_str", "like"):
            pre = case["pre"]
            for c_ in (cur, tcur):
                c_.execute("INSERT INTO T (K, S) VALUES " + ", ".join(f"({int(k)}, {sql_str(s)})" for k, s in pre))
            if tpl == "update_where":
                vals = [case["new"], case["key"]]
                ph = _ph(style, 2)
                sql, lit = f"UPDATE T SET S = {ph[0]} WHERE K = {ph[1]}", f"UPDATE T SET S = {sql_lit(vals[0])} WHERE K = {sql_lit(vals[1])}"
                model = [(k, (vals[0] if k == vals[1] else s)) for k, s in pre]
                want_status = [(sum(1 for k, _ in pre if k == vals[1]), 0)]
            elif tpl == "delete_where":
                vals = [case["needle"]]
                ph = _ph(style, 1)
                sql, lit = f"DELETE FROM T WHERE S = {ph[0]}", f"DELETE FROM T WHERE S = {sql_lit(vals[0])}"
                model = [(k, s) for k, s in pre if s != vals[0]]
                want_status = [(len(pre) - len(model),)]
            elif tpl == "in_list":
                if style == "qmark":
                    vals = list(case["list"])
                    ph = ", ".join(["?"] * len(vals))
                else:
                    vals = [list(case["list"])]
                    ph = _ph(style, 1)[0]
                sql = f"SELECT K FROM T WHERE K IN ({ph}) ORDER BY K"
                lit = f"SELECT K FROM T WHERE K IN ({', '.join(str(int(x)) for x in case['list'])}) ORDER BY K"
                model = None
                want_status = [(k,) for k in sorted(k for k, _ in pre if k in case["list"])]
                ctx.nontrivial = True
            elif tpl == "in_list_str":
                items = list(case["slist"])
                if not items or any(not isinstance(x, str) for x in items):
                    raise InvalidCase()
                if style in ("qmark", "pyformat_dict"):
                    # one placeholder per element (these styles bind scalars only)
                    vals = items
                    ph = ", ".join(_ph(style, len(items)))
                else:
                    vals = [tuple(items) if case.get("as_tuple") else items]
                    ph = _ph(style, 1)[0]
                sql = f"SELECT K FROM T WHERE S IN ({ph}) ORDER BY K"
                lit = None if any("$" in x for x in items) else f"SELECT K FROM T WHERE S IN ({', '.join(sql_lit(x) for x in items)}) ORDER BY K"
                if any(not isinstance(s_, str) or "$" in s_ for _, s_ in pre):
                    raise InvalidCase()
                model = None
                want_status = [(k,) for k, s_ in sorted(pre) if s_ in items]
                ctx.nontrivial = any(ch in x for x in items for ch in "'\\\n%$")
                ctx.cls("in-list:strings", "in-list:one-sequence-parameter" if len(vals) == 1 and not isinstance(vals[0], str) else "in-list:one-placeholder-per-element")
            else:
                vals = [case["pattern"]]
                ph = _ph(style, 1)
                sql = f"SELECT K, S, {_pct(style, sql_str('50%'))} FROM T WHERE S LIKE {ph[0]} ORDER BY K, S"
                lit = f"SELECT K, S, '50%' FROM T WHERE S LIKE {sql_lit(vals[0])} ORDER BY K, S"
                model = None
                rx = re.compile("".join(".*" if ch == "%" else "." if ch == "_" else re.escape(ch) for ch in vals[0]), re.S)
                want_status = sorted((k, s, "50%") for k, s in pre if rx.fullmatch(s))
                ctx.nontrivial = True
            o, t = both(sql, vals, lit)
            if not o.ok:
                ctx.fail(sig(f"raises|{o.etype}"), f"{sql} {vals!r}: {o}")
                return
            if [tuple(r) for r in o.rows] != [tuple(r) for r in want_status]:
                ctx.fail(sig("wrong-result"), f"{sql} {vals!r} over {pre!r}: {o.rows!r} want {want_status!r}")
            if t is not None and (not t.ok or repr(t.rows) != repr(o.rows)):
                ctx.fail(sig("differs-from-literal-twin"), f"bound {o.rows!r}; literal `{lit}`: {t}")
            if model is not None:
                got = run(conn.cursor(), "SELECT K, S FROM T")
                if not got.ok or sorted(got.rows, key=repr) != sorted(model, key=repr):
                    ctx.fail(sig("wrong-rows"), f"after {sql} {vals!r}: {got} model {model!r}")
        elif tpl == "with_variable":
            vals = [dec(v) for _, v in case["vals"]]
            for c_ in (cur, tcur):
                c_.execute(f"SET MYVAR = {int(case['var'])}")
            ph = _ph(style, 2)
            sql = f"SELECT $myvar AS V, {ph[0]} AS A, {ph[1]} AS B"
            lit = f"SELECT $myvar AS V, {sql_lit(vals[0])} AS A, {sql_lit(vals[1])} AS B"
            o, t = both(sql, vals, lit)
            want = (case["var"], vals[0], vals[1])
            if not o.ok:
                ctx.fail(sig(f"raises|{o.etype}"), f"{sql} {vals!r}: {o}")
            elif len(o.rows) != 1 or not all(same_value(g, w) for g, w in zip(o.rows[0], want)):
                ctx.fail(sig("wrong-value"), f"{sql} {vals!r}: {o.rows!r} want {want!r}")
            ctx.nontrivial = True
        elif tpl == "with_literal_noise":
            vals = [dec(v) for _, v in case["vals"]]
            ph = _ph(style, 1)[0]
            noise = case["noise"]
            if noise == "qmark-in-literal":
                sql, extra = f"SELECT 'is it? yes' AS N, {ph} AS A", "is it? yes"
            elif noise == "percent-in-literal":
                sql, extra = f"SELECT {_pct(style, sql_str('100% sure'))} AS N, {ph} AS A", "100% sure"
            elif noise == "trailing-comment":
                sql, extra = f"SELECT 'n' AS N, {ph} AS A -- trailing comment", "n"
            elif noise == "block-comment":
                sql, extra = f"SELECT 'n' AS N, /* a comment */ {ph} AS A", "n"
            else:
                raise InvalidCase()
            o, _ = both(sql, vals, None)
            if not o.ok:
                ctx.fail(sig(f"raises|{o.etype}|{noise}"), f"{sql} {vals!r}: {o}")
            elif o.rows != [(extra, vals[0])]:
                ctx.fail(sig(f"wrong-value|{noise}"), f"{sql} {vals!r}: {o.rows!r}")
            ctx.nontrivial = True
        elif tpl == "ctas":
            vals = [dec(v) for _, v in case["vals"]]
            ph = _ph(style, 2)
            sql = f"CREATE TABLE T2 AS SELECT {ph[0]} AS A, {ph[1]} AS B"
            o, _ = both(sql, vals, None)
            if not o.ok:
                ctx.fail(sig(f"raises|{o.etype}"), f"{sql} {vals!r}: {o}")
            else:
                got = run(conn.cursor(), "SELECT A, B FROM T2")
                if not got.ok or len(got.rows) != 1 or not all(same_value(g, w) for g, w in zip(got.rows[0], vals)):
                    ctx.fail(sig("wrong-value"), f"{sql} {vals!r}: {got}")
        # structure: no object appeared or vanished other than the statement's own
        objs1 = snapshot(fs, rows=False)["tables"]
        allowed = set(objs0) | ({("DB1", "S1", "T2", "BASE TABLE")} if tpl == "ctas" else set())
        if not (set(objs0) <= set(objs1) <= allowed):
            ctx.fail(sig("structure-changed"), f"objects {sorted(set(objs1) ^ set(objs0))}")
        by = run(conn.cursor(), "SELECT X FROM BYSTANDER")
        if not by.ok or by.rows != [(1,)]:
            ctx.fail(sig("bystander-changed"), f"{by}")
    finally:
        snowflake.connector.paramstyle = old
        close_instance(fs)
        close_instance(twin)


# ------------------------------------------------------------------------------------------ executemany


@st.composite
def _many_case(draw, tier):
    style = draw(st.sampled_from(["pyformat", "format", "qmark"]))
    n = draw(st.integers(0, 5))
    return {
        "style": style,
        "sets": [[draw(st.integers(0, 9)), draw(st.one_of(_val("str"), st.sampled_from(HOSTILE))), draw(_val("int"))] for _ in range(n)],
        "stmt": draw(st.sampled_from(["insert", "insert_nocols", "insert_lower_multiline", "update", "delete"])),
    }


def run_many(case, ctx: Ctx) -> None:
    style = case["style"]
    if style not in ("pyformat", "format", "qmark"):
        raise InvalidCase()
    fs, conn, old = _connect(style, False)
    twin, tconn, _ = _connect(style, False)
    try:
        ph = _ph(style, 3)
        for c_ in (conn.cursor(), tconn.cursor()):
            c_.execute("CREATE TABLE T (K INT, S VARCHAR, I INT)")
            c_.execute("INSERT INTO T VALUES (0, 'zero', 0), (1, 'one', 1), (2, 'two', 2)")
        sets = [[dec(v) for v in s] for s in case["sets"]]
        if case["stmt"] == "insert":
            sql = f"INSERT INTO T (K, S, I) VALUES ({ph[0]}, {ph[1]}, {ph[2]})"
        elif case["stmt"] == "insert_nocols":
            sql = f"INSERT INTO T VALUES ({ph[0]}, {ph[1]}, {ph[2]})"
        elif case["stmt"] == "insert_lower_multiline":
            sql = f"insert into t (k, s, i)\n  values\n  ({ph[0]},\n   {ph[1]}, {ph[2]})\n"
        elif case["stmt"] == "update":
            sql = f"UPDATE T SET S = {ph[1]}, I = {ph[2]} WHERE K = {ph[0]}"
            sets = [[s[1], s[2], s[0]] if style != "pyformat_dict" else s for s in sets] if False else sets
            if style in ("pyformat", "format", "qmark"):
                # placeholders are positional: order the values as they appear in the text
                sql = f"UPDATE T SET S = {ph[0]}, I = {ph[1]} WHERE K = {ph[2]}"
                sets = [[s[1], s[2], s[0]] for s in sets]
        elif case["stmt"] == "delete":
            sql = f"DELETE FROM T WHERE K = {ph[0]} OR (S = {ph[1]} AND I = {ph[2]})"
        else:
            raise InvalidCase()
        ctx.cls(f"executemany:{case['stmt']}:{style}", f"sets:{len(sets)}")
        ctx.nontrivial = len(sets) >= 2
        cur = conn.cursor()
        err = None
        try:
            r = cur.executemany(sql, [tuple(s) if style != "qmark" else list(s) for s in sets])
            if r is not cur:
                ctx.fail("C08|executemany|return-value", repr(r))
        except Exception as e:
            err = e
        tcur = tconn.cursor()
        terr = None
        for s in sets:
            o = run(tcur, sql, tuple(s) if style != "qmark" else list(s))
            if not o.ok:
                terr = o
                break
        if (err is None) != (terr is None):
            ctx.fail(f"C08|executemany|outcome-differs-from-loop|{style}", f"executemany: {err!r}; loop: {terr}")
            return
        a = run(conn.cursor(), "SELECT K, S, I FROM T")
        b = run(tconn.cursor(), "SELECT K, S, I FROM T")
        if not (a.ok and b.ok) or sorted(a.rows, key=repr) != sorted(b.rows, key=repr):
            ctx.fail(f"C08|executemany|state-differs-from-loop|{style}", f"{sql} {sets!r}: {a} vs {b}")
    finally:
        snowflake.connector.paramstyle = old
        close_instance(fs)
        close_instance(twin)


PROP = Prop(
    id="C08",
    facets=[
        Facet(
            name="bind_statements",
            strategy=_case,
            run=run_bind,
            rule=(
                "Hypothesis draws paramstyle {pyformat seq, pyformat dict, format, qmark} (configured before connect; flipped on the module "
                "after connect in half the cases) x template {SELECT %s.., INSERT into typed columns + read back, UPDATE..SET c=%s WHERE k=%s, "
                "DELETE WHERE c=%s, IN (list of ints; list/tuple of hostile strings as one parameter or one placeholder per element), LIKE beside an escaped %%, beside a $session_variable, beside ?/% inside literals and "
                "comments, CTAS} x values over the adversarial alphabet (quotes, backslashes, newlines, %, $, ?, ;, --, /*, injection "
                "strings) and typed edge values. Oracles: value round trip; model of the DML effect; differential against the same "
                "statement with harness-rendered literals on a twin instance; object listing unchanged. "
                "Non-trivial: >=1 string parameter with an adversarial character, or a non-string typed parameter."
            ),
            quick=220,
            thorough=3000,
            budget_quick=55,
        ),
        Facet(
            name="executemany",
            strategy=_many_case,
            run=run_many,
            rule="executemany(cmd, seq) over 0-5 parameter sets with hostile strings (backslashes, quotes, %, $, newlines) for insert (with/without column list, lower-case multi-line)/update/delete vs a loop of execute(cmd, p) on a twin; final states compared.",
            quick=100,
            thorough=800,
            quick_shards=4,
            budget_quick=40,
        ),
    ],
    assumptions=[
        "bare SELECT %s is asserted for str/int/bool/None (the types whose literal form is unambiguous)",
        "the literal twin is skipped (counted as excluded) when a value contains $word, because of the listed C15 finding",
    ],
)
