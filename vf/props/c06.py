"""C06 — cursor.description matches the result of every executed statement."""

from __future__ import annotations

import datetime as dt
import json
import re
from decimal import Decimal

import snowflake.connector
from hypothesis import strategies as st
from snowflake.connector.cursor import DictCursor, SnowflakeCursor

from vf.engine import Ctx, Facet, InvalidCase, Prop
from vf.util import close_instance, diff_snap, etype_name, new_instance, run, snapshot

SETUP = [
    "CREATE TABLE TT (C_INT INT, C_BIG BIGINT, C_NUM NUMBER(10,2), C_N0 NUMBER(12,0), C_FLT FLOAT, C_STR VARCHAR(30), C_BOOL BOOLEAN, C_DATE DATE, C_TIME TIME, C_TS TIMESTAMP_NTZ, C_TZ TIMESTAMP_TZ, C_BIN BINARY, C_VAR VARIANT, C_N38 NUMBER(38,12), C_N20 NUMBER(20,10))",
    "INSERT INTO TT SELECT 1, 9000000000, 12.34, 77, 1.5, 'abc', TRUE, '2020-02-29', '12:34:56', '2020-01-02 03:04:05.000006', '2020-01-02 03:04:05+00:00', NULL, PARSE_JSON('{\"a\": [1, 2]}'), 1.5, 123456789.0123456789",
    "INSERT INTO TT SELECT 2, -5, -0.01, 0, -2.25, '', FALSE, '1969-12-31', '00:00:00', '1969-12-31 23:59:59.999999', '1969-12-31 23:59:59+00:00', NULL, PARSE_JSON('[]'), -0.000000000001, 0",
    "INSERT INTO TT (C_INT) VALUES (NULL)",
    "CREATE TABLE SRC (K INT, V VARCHAR)",
    "INSERT INTO SRC VALUES (1, 'one'), (5, 'five')",
    "CREATE TABLE TGT (K INT, V VARCHAR)",
    "INSERT INTO TGT VALUES (1, 'uno'), (2, 'dos')",
    "CREATE VIEW VW AS SELECT C_INT, C_STR FROM TT",
    "SET MYVAR = 3",
]

COLS = ["C_INT", "C_BIG", "C_NUM", "C_N0", "C_FLT", "C_STR", "C_BOOL", "C_DATE", "C_TIME", "C_TS", "C_TZ", "C_BIN", "C_VAR", "C_N38", "C_N20"]

# (kind, sql) — every statement succeeds on the SETUP state
STATEMENTS: list[tuple[str, str]] = (
    [("select-column", f"SELECT {c} FROM TT ORDER BY C_INT") for c in COLS]
    + [
        ("select-star", "SELECT * FROM TT ORDER BY C_INT"),
        ("select-star-view", "SELECT * FROM VW ORDER BY C_INT"),
        ("arith", "SELECT C_INT + 1 AS A, C_INT * 2 AS B, C_INT - C_BIG AS C FROM TT"),
        ("arith-decimal", "SELECT C_NUM * 2 AS A, C_NUM + C_INT AS B, C_NUM / 3 AS C FROM TT"),
        ("arith-float", "SELECT C_FLT / 2 AS A, C_FLT + C_INT AS B FROM TT"),
        ("int-division", "SELECT C_INT / 2 AS A FROM TT"),
        ("count", "SELECT COUNT(*) AS N, COUNT(C_STR) AS M FROM TT"),
        ("sum-int", "SELECT SUM(C_INT) AS S FROM TT"),
        ("sum-decimal", "SELECT SUM(C_NUM) AS S FROM TT"),
        ("sum-float", "SELECT SUM(C_FLT) AS S FROM TT"),
        ("avg-int", "SELECT AVG(C_INT) AS A FROM TT"),
        ("avg-decimal", "SELECT AVG(C_NUM) AS A FROM TT"),
        ("min-max", "SELECT MIN(C_INT) AS A, MAX(C_STR) AS B, MIN(C_DATE) AS C, MAX(C_TS) AS D, MIN(C_NUM) AS E FROM TT"),
        ("group-by", "SELECT C_BOOL, COUNT(*) AS N FROM TT GROUP BY C_BOOL ORDER BY 1"),
        ("cast", "SELECT C_INT::VARCHAR AS A, C_STR::VARCHAR(5) AS B, C_INT::FLOAT AS C, C_INT::NUMBER(10,3) AS D, C_DATE::TIMESTAMP_NTZ AS E, C_TS::DATE AS F FROM TT"),
        ("case", "SELECT CASE WHEN C_INT > 1 THEN 'big' ELSE 'small' END AS A, CASE WHEN C_INT > 1 THEN 1 ELSE 0 END AS B FROM TT"),
        ("literals", "SELECT 1 AS A, 1.5 AS B, 'x' AS C, TRUE AS D, NULL AS E, 1e0 AS F"),
        ("literals-typed", "SELECT '2020-01-01'::DATE AS A, '12:00:00'::TIME AS B, '2020-01-01 00:00:00'::TIMESTAMP_NTZ AS C, 1::BIGINT AS D, 2.50::NUMBER(5,2) AS E"),
        ("string-functions", "SELECT UPPER(C_STR) AS A, LENGTH(C_STR) AS B, C_STR || 'x' AS C, TRIM(C_STR) AS D FROM TT"),
        ("date-functions", "SELECT DATEADD(DAY, 1, C_DATE) AS A, DATEDIFF(DAY, C_DATE, '2021-01-01'::DATE) AS B, TO_DATE('2020-01-01') AS C, TO_TIMESTAMP(0) AS D FROM TT"),
        ("decimal-wide-scale", "SELECT TO_DECIMAL('1.25', 25, 15) AS A, C_N38 * 1 AS B, C_N20 + C_N20 AS C, 1.000000000001 AS D FROM TT"),
        ("decimal-functions", "SELECT TO_DECIMAL('1.25', 10, 2) AS A, TO_NUMBER('7') AS B, TRY_TO_DECIMAL('x', 10, 2) AS C, ROUND(C_NUM, 1) AS D FROM TT"),
        ("json", "SELECT PARSE_JSON('{\"k\": 1}') AS A, C_VAR:a AS B, C_VAR:a[0]::INT AS C, OBJECT_CONSTRUCT('k', 1) AS D, ARRAY_SIZE(C_VAR) AS E FROM TT"),
        ("array-agg", "SELECT ARRAY_AGG(C_INT) AS A FROM TT"),
        ("array-literal", "SELECT [1, 2] AS A, ARRAY_CONSTRUCT(1, 2) AS B"),
        ("hash", "SELECT HASH(C_STR) AS H FROM TT"),
        ("sha2", "SELECT SHA2(C_STR) AS A, SHA2_BINARY(C_STR) AS B FROM TT"),
        ("regexp", "SELECT REGEXP_REPLACE(C_STR, 'a', 'b') AS A, REGEXP_SUBSTR(C_STR, 'b') AS B, SPLIT(C_STR, 'b') AS C FROM TT"),
        ("window", "SELECT C_INT, ROW_NUMBER() OVER (ORDER BY C_INT) AS RN, SUM(C_NUM) OVER () AS S FROM TT"),
        ("join", "SELECT s.K, t.V FROM SRC s JOIN TGT t ON s.K = t.K"),
        ("union", "SELECT K FROM SRC UNION ALL SELECT K FROM TGT"),
        ("cte", "WITH c AS (SELECT K, V FROM SRC) SELECT V, K FROM c"),
        ("values", "SELECT column1, column2 FROM VALUES (1, 'a'), (2, 'b')"),
        ("variable", "SELECT $MYVAR AS V"),
        ("current", "SELECT CURRENT_DATABASE() AS A, CURRENT_SCHEMA() AS B"),
        ("random-seeded", "SELECT RANDOM(42) AS R"),
        ("sample-seeded", "SELECT K FROM SRC SAMPLE (50) SEED (7)"),
        ("equal-null", "SELECT EQUAL_NULL(C_INT, 1) AS E FROM TT"),
        ("identifier", "SELECT K FROM IDENTIFIER('SRC')"),
        ("quoted-names", 'SELECT K AS "lower", V AS "with space" FROM SRC'),
        ("insert", "INSERT INTO SRC VALUES (9, 'nine')"),
        ("insert-select", "INSERT INTO TGT SELECT K, V FROM SRC"),
        ("update", "UPDATE SRC SET V = 'x' WHERE K = 1"),
        ("update-none", "UPDATE SRC SET V = 'x' WHERE K = 12345"),
        ("delete", "DELETE FROM SRC WHERE K = 5"),
        ("truncate", "TRUNCATE TABLE TGT"),
        ("merge", "MERGE INTO TGT USING SRC ON TGT.K = SRC.K WHEN MATCHED THEN UPDATE SET V = SRC.V WHEN NOT MATCHED THEN INSERT (K, V) VALUES (SRC.K, SRC.V)"),
        ("create-table", "CREATE TABLE NEWT (I INT)"),
        ("create-table-comment", "CREATE TABLE NEWT2 (I INT, S VARCHAR(3)) COMMENT = 'c'"),
        ("ctas", "CREATE TABLE NEWT3 AS SELECT * FROM SRC"),
        ("clone", "CREATE TABLE NEWT4 CLONE SRC"),
        ("create-view", "CREATE VIEW NEWV AS SELECT 1 AS ONE"),
        ("create-schema", "CREATE SCHEMA NEWS"),
        ("create-database", "CREATE DATABASE NEWDB"),
        ("alter-add", "ALTER TABLE SRC ADD COLUMN EXTRA INT"),
        ("alter-rename", "ALTER TABLE TGT RENAME TO TGT2"),
        ("alter-comment", "ALTER TABLE SRC SET COMMENT = 'c'"),
        ("comment-on", "COMMENT ON TABLE SRC IS 'c'"),
        ("drop-table", "DROP TABLE TGT"),
        ("drop-view", "DROP VIEW VW"),
        ("use-database", "USE DATABASE DB1"),
        ("use-schema", "USE SCHEMA S1"),
        ("use-schema-qualified", "USE SCHEMA DB1.S1"),
        ("begin", "BEGIN"),
        ("commit-noop", "COMMIT"),
        ("rollback-noop", "ROLLBACK"),
        ("set", "SET OTHERVAR = 'v'"),
        ("unset", "UNSET MYVAR"),
        ("show-tables", "SHOW TABLES IN SCHEMA DB1.S1"),
        ("show-terse-objects", "SHOW TERSE OBJECTS IN DATABASE DB1"),
        ("show-schemas", "SHOW SCHEMAS"),
        ("show-primary-keys", "SHOW PRIMARY KEYS"),
        ("show-users", "SHOW USERS"),
        ("describe-table", "DESCRIBE TABLE TT"),
        ("describe-view", "DESCRIBE VIEW VW"),
        ("info-schema-tables", "SELECT table_name, comment FROM information_schema.tables WHERE table_schema = 'S1'"),
        ("info-schema-columns", "SELECT column_name, data_type, numeric_precision, character_maximum_length FROM information_schema.columns WHERE table_name = 'TT'"),
        ("tag-noop", "ALTER TABLE SRC SET TAG foo = 'bar'"),
        ("create-tag-noop", "CREATE TAG cost_center COMMENT = 'cost_center tag'"),
        ("cluster-by-noop", "ALTER TABLE SRC CLUSTER BY (K)"),
        ("nop-regex", "CALL SOME_PROCEDURE(1, 2)"),
        # appended later (earlier indices are referred to by committed replay cases)
        ("backslash-literals", "SELECT 'C:\\\\temp' AS P, 'x\\\\' AS Q, K FROM SRC WHERE V <> 'dir\\\\' ORDER BY K"),
        ("unaliased-expressions", "SELECT DATEDIFF(DAY, C_DATE, '2021-01-01'::DATE), C_INT + 1, UPPER(C_STR), 'a\\\\b' FROM TT ORDER BY C_INT"),
        ("number-precision-only", "SELECT '7'::NUMBER(4) AS A, 12::DECIMAL(6) AS B, C_INT::NUMERIC(9) AS C, 5::NUMBER(11,3) AS D FROM TT ORDER BY C_INT"),
    ]
)
# statements whose select list is made of casts to a declared NUMBER(p[,s]): the description carries that precision and scale
EXPECT_PS = {"number-precision-only": [(4, 0), (6, 0), (9, 0), (11, 3)]}
IN_TX = [("commit-in-tx", "COMMIT"), ("rollback-in-tx", "ROLLBACK"), ("insert-in-tx", "INSERT INTO SRC VALUES (8, 'eight')"), ("select-in-tx", "SELECT K FROM SRC ORDER BY K")]
PARAM = [
    ("param-select", "SELECT {p} AS A, {p} AS B", ["x'y", 5]),
    ("param-where", "SELECT K FROM SRC WHERE K = {p} OR V = {p}", [1, "five"]),
    ("param-insert", "INSERT INTO SRC VALUES ({p}, {p})", [7, "seven"]),
    ("param-update", "UPDATE SRC SET V = {p} WHERE K = {p}", ["z", 1]),
]

FIXED, REAL, TEXT, DATE, VARIANT, TIMESTAMP_TZ, TIMESTAMP_NTZ, BINARY, TIME, BOOLEAN = 0, 1, 2, 3, 5, 7, 8, 11, 12, 13
NAMES = {0: "FIXED", 1: "REAL", 2: "TEXT", 3: "DATE", 5: "VARIANT", 7: "TIMESTAMP_TZ", 8: "TIMESTAMP_NTZ", 11: "BINARY", 12: "TIME", 13: "BOOLEAN"}
DECLARED = {
    "C_INT": (FIXED, 38, 0), "C_BIG": (FIXED, 38, 0), "C_NUM": (FIXED, 10, 2), "C_N0": (FIXED, 12, 0), "C_FLT": (REAL, None, None),
    "C_STR": (TEXT, None, None), "C_BOOL": (BOOLEAN, None, None), "C_DATE": (DATE, None, None), "C_TIME": (TIME, None, None),
    "C_TS": (TIMESTAMP_NTZ, None, None), "C_TZ": (TIMESTAMP_TZ, None, None), "C_BIN": (BINARY, None, None), "C_VAR": (VARIANT, None, None), "C_N38": (FIXED, 38, 12), "C_N20": (FIXED, 20, 10),
}


@st.composite
def _case(draw, tier):
    group = draw(st.sampled_from(["stmt", "stmt", "stmt", "stmt", "in_tx", "param"]))
    n = {"stmt": len(STATEMENTS), "in_tx": len(IN_TX), "param": len(PARAM)}[group]
    return {
        "group": group,
        "idx": draw(st.integers(0, n - 1)),
        "cursor": draw(st.sampled_from(["tuple", "dict"])),
        "style": draw(st.sampled_from(["pyformat", "qmark"])),
        "read_point": draw(st.sampled_from(["before-fetch", "between-fetches", "after-exhaustion", "twice"])),
        "context": draw(st.sampled_from(["db+schema", "db+schema", "other-schema"])),
    }


def _value_agrees(md, v) -> str | None:
    """None if the Python value agrees with the ResultMetadata, else a short reason."""
    tc = md.type_code
    if v is None:
        return None
    if tc == FIXED:
        if (md.scale or 0) == 0:
            return None if (isinstance(v, int) and not isinstance(v, bool)) else f"FIXED-scale0-but-{type(v).__name__}"
        if not isinstance(v, Decimal):
            return f"FIXED-scale{md.scale}-but-{type(v).__name__}"
        exp = v.as_tuple().exponent
        if isinstance(exp, int) and -exp > md.scale:
            return "Decimal-finer-than-scale"
        if md.precision is not None and len(v.as_tuple().digits) > md.precision:
            return "Decimal-wider-than-precision"
        return None
    want = {REAL: float, TEXT: str, DATE: dt.date, TIME: dt.time, BINARY: (bytes, bytearray), BOOLEAN: bool}.get(tc)
    if want is not None:
        if tc == DATE and isinstance(v, dt.datetime):
            return "DATE-but-datetime"
        return None if isinstance(v, want) and not (tc != BOOLEAN and isinstance(v, bool)) else f"{NAMES[tc]}-but-{type(v).__name__}"
    if tc == TIMESTAMP_NTZ:
        return None if isinstance(v, dt.datetime) and v.tzinfo is None else f"TIMESTAMP_NTZ-but-{type(v).__name__}{'-aware' if isinstance(v, dt.datetime) else ''}"
    if tc == TIMESTAMP_TZ:
        return None if isinstance(v, dt.datetime) and v.tzinfo is not None else f"TIMESTAMP_TZ-but-{type(v).__name__}"
    if tc == VARIANT:
        if not isinstance(v, str):
            return f"VARIANT-but-{type(v).__name__}"
        try:
            json.loads(v)
            return None
        except ValueError:
            return "VARIANT-not-json"
    return f"unknown-type-code-{tc}"


def _prepare(style: str, context: str, nop: bool):
    old = snowflake.connector.paramstyle
    snowflake.connector.paramstyle = style
    fs = new_instance(nop_regexes=[r"^\s*CALL\s"] if nop else None)
    try:
        conn = fs.connect("db1", "s1")
    finally:
        snowflake.connector.paramstyle = old
    cur = conn.cursor()
    for s in SETUP:
        cur.execute(s)
    if context == "other-schema":
        cur.execute("CREATE SCHEMA S9")
    return fs, conn


def run_description(case, ctx: Ctx) -> None:
    group, idx = case["group"], case.get("idx")
    table = {"stmt": STATEMENTS, "in_tx": IN_TX, "param": PARAM}.get(group)
    if table is not None and "kind" in case:  # hand-written regression cases name the statement
        idx = next((i for i, row in enumerate(table) if row[0] == case["kind"]), None)
    if table is None or not isinstance(idx, int) or not 0 <= idx < len(table) or case["style"] not in ("pyformat", "qmark") or case["read_point"] not in ("before-fetch", "between-fetches", "after-exhaustion", "twice"):
        raise InvalidCase()
    params = None
    if group == "param":
        kind, tpl, pv = table[idx]
        sql = tpl.replace("{p}", "?" if case["style"] == "qmark" else "%s")
        params = list(pv) if case["style"] == "qmark" else tuple(pv)
    else:
        kind, sql = table[idx]
    cls = DictCursor if case["cursor"] == "dict" else SnowflakeCursor
    fs, conn = _prepare(case["style"], case["context"], kind == "nop-regex")
    twin, tconn = _prepare(case["style"], case["context"], kind == "nop-regex")
    try:
        ctx.cls(f"stmt:{kind}", f"read:{case['read_point']}")
        ctx.nontrivial = kind != "select-star" or case["read_point"] in ("between-fetches",)
        cur, tcur = conn.cursor(cls), tconn.cursor(cls)
        if group == "in_tx":
            for c_ in (cur, tcur):
                c_.execute("BEGIN")
                c_.execute("INSERT INTO SRC VALUES (70, 'pending')")
        # reference run on the twin: never reads description
        t = run(tcur, sql, params)
        if not t.ok:
            raise InvalidCase()  # the statement catalogue only holds statements that succeed
        # run under test
        try:
            if params is None:
                cur.execute(sql)
            else:
                cur.execute(sql, params)
        except Exception as e:
            ctx.fail(f"C06|execute-differs-from-twin|{kind}", f"{sql}: {etype_name(e)} {e}")
            return
        ctx0 = (conn.database, conn.schema)
        snap0 = snapshot(fs)
        rp = case["read_point"]
        rows: list = []
        descs = []

        def read_desc(where: str):
            try:
                d = cur.description
                descs.append(d)
                return d
            except Exception as e:
                m = re.search(r"for column type (\S+)", str(e))
                disc = f"duckdb_type={m.group(1)}" if m else f"stmt={kind}"
                ctx.fail(f"C06|description-raises|{etype_name(e)}|{disc}", f"after {sql} ({where}): {e}")
                return None

        try:
            if rp in ("before-fetch", "twice"):
                if read_desc(rp) is None:
                    return
                if rp == "twice":
                    read_desc(rp)
                rows = cur.fetchall()
            elif rp == "between-fetches":
                first = cur.fetchone()
                if read_desc(rp) is None:
                    return
                rows = ([first] if first is not None else []) + cur.fetchall()
            else:
                rows = cur.fetchall()
                if read_desc(rp) is None:
                    return
        except Exception as e:
            ctx.fail(f"C06|fetch-raises|{etype_name(e)}|stmt={kind}", f"{sql}: {e}")
            return
        d = descs[0]
        if len(descs) > 1 and descs[1] != d:
            ctx.fail("C06|description-unstable|twice", f"{d} then {descs[1]}")
        # (e) reading description did not disturb the rows, the data or the session
        if repr(rows) != repr(t.rows):
            ctx.fail(f"C06|rows-differ-after-reading-description|{rp}", f"{sql}: {rows!r} vs twin {t.rows!r}")
        if snapshot(fs) != snap0:
            ctx.fail("C06|reading-description-changed-state", diff_snap(snap0, snapshot(fs)))
        if (conn.database, conn.schema) != ctx0:
            ctx.fail("C06|reading-description-changed-context", f"{ctx0} -> {(conn.database, conn.schema)}")
        if group == "in_tx" and kind in ("insert-in-tx", "select-in-tx"):
            o = run(conn.cursor(), "SELECT V FROM SRC WHERE K = 70")
            if not o.ok or o.rows != [("pending",)]:
                ctx.fail("C06|reading-description-disturbed-transaction", f"{o}")
            o = run(conn.cursor(), "ROLLBACK")
            o = run(conn.cursor(), "SELECT V FROM SRC WHERE K = 70")
            if not o.ok or o.rows != []:
                ctx.fail("C06|reading-description-committed-transaction", f"{o}")
        # (b) shape and names
        if rows:
            width = len(rows[0])
            if width != len(d):
                ctx.fail(f"C06|width-differs|stmt={kind}", f"{sql}: description has {len(d)} entries {[c.name for c in d]}, rows have {width}")
                return
            if case["cursor"] == "dict" and list(rows[0].keys()) != [c.name for c in d]:
                ctx.fail(f"C06|names-differ-from-dict-keys|stmt={kind}", f"{[c.name for c in d]} vs {list(rows[0].keys())}")
        # (c) type agreement
        for r in rows:
            vals = list(r.values()) if isinstance(r, dict) else list(r)
            for md, v in zip(d, vals):
                why = _value_agrees(md, v)
                if why:
                    ctx.fail(f"C06|type-disagrees|{why}", f"{sql}: column {md.name} described {NAMES.get(md.type_code, md.type_code)}({md.precision},{md.scale}) holds {v!r}")
        ctx.cls(*[f"type_code:{NAMES.get(c.type_code, c.type_code)}" for c in d])
        if kind in EXPECT_PS:
            got_ps = [(md.precision, md.scale) for md in d]
            if got_ps != EXPECT_PS[kind]:
                ctx.fail(f"C06|declared-type|precision-scale|stmt={kind}", f"{sql}: described {got_ps}, the casts declare {EXPECT_PS[kind]}")
        if kind in ("select-column", "select-star"):
            for md in d:
                if md.name in DECLARED:
                    tc, p, s_ = DECLARED[md.name]
                    if md.type_code != tc:
                        ctx.fail(f"C06|declared-type|type_code|{md.name}", f"{md}")
                    elif tc == FIXED and (md.precision, md.scale) != (p, s_):
                        ctx.fail(f"C06|declared-type|precision-scale|{md.name}", f"{md} want {(p, s_)}")
        # (d) describe(q) == description after execute(q), and does not execute q
        fs3, conn3 = _prepare(case["style"], case["context"], kind == "nop-regex")
        try:
            cur3 = conn3.cursor(cls)
            if group == "in_tx":
                cur3.execute("BEGIN")
                cur3.execute("INSERT INTO SRC VALUES (70, 'pending')")
            s0 = snapshot(fs3)
            c0 = (conn3.database, conn3.schema)
            try:
                dd = cur3.describe(sql, params) if params is not None else cur3.describe(sql)
            except Exception as e:
                is_query = sql.lstrip().upper().startswith(("SELECT", "WITH"))
                ctx.fail(f"C06|describe()-raises|{etype_name(e)}|{'query' if is_query else 'non-query'}", f"describe({sql!r}): {e}")
                dd = None
            if dd is not None and dd != d:
                ctx.fail(f"C06|describe()-differs-from-description|stmt={kind}", f"{dd} vs {d}")
            if snapshot(fs3) != s0 or (conn3.database, conn3.schema) != c0:
                ctx.fail(f"C06|describe()-executed-the-statement|stmt={kind}", diff_snap(s0, snapshot(fs3)))
        finally:
            close_instance(fs3)
    finally:
        close_instance(fs)
        close_instance(twin)


# ------------------------------------------------------------------------------------------ one cursor, many statements

SEQ_STATEMENTS = [
    "SELECT * FROM SRC ORDER BY K",
    "SELECT * FROM VS",
    "SELECT K, V FROM SRC ORDER BY K",
    "SELECT {p} AS P",
    "SELECT {p} AS P, K FROM SRC WHERE K = {p}",
    "ALTER TABLE SRC ADD COLUMN EXTRA{n} INT",
    "ALTER TABLE SRC DROP COLUMN V",
    "CREATE OR REPLACE TABLE SRC (K VARCHAR, V INT, W FLOAT)",
    "CREATE OR REPLACE VIEW VS AS SELECT K FROM SRC",
    "CREATE OR REPLACE VIEW VS AS SELECT K, K AS K2 FROM SRC",
    "INSERT INTO SRC (K) VALUES (3)",
    "USE SCHEMA S9",
    "USE SCHEMA S1",
    "SELECT COUNT(*) AS N FROM SRC",
    "UPDATE SRC SET K = K",
    "SHOW TERSE TABLES IN SCHEMA DB1.S1",
    "DESCRIBE TABLE SRC",
]
PVALS = [1, "x", 2.5, None, True]


@st.composite
def _seq_case(draw, tier):
    n = draw(st.integers(2, 7))
    return {
        "stmts": [[draw(st.integers(0, len(SEQ_STATEMENTS) - 1)), draw(st.integers(0, len(PVALS) - 1)), draw(st.integers(0, len(PVALS) - 1))] for _ in range(n)],
        "style": draw(st.sampled_from(["pyformat", "qmark", "qmark"])),
        "cursor": draw(st.sampled_from(["tuple", "dict"])),
        "read_every": draw(st.booleans()),
    }


def run_sequence(case, ctx: Ctx) -> None:
    if case["style"] not in ("pyformat", "qmark") or any(not (isinstance(x, list) and len(x) == 3 and 0 <= x[0] < len(SEQ_STATEMENTS) and 0 <= x[1] < len(PVALS) and 0 <= x[2] < len(PVALS)) for x in case["stmts"]):
        raise InvalidCase()
    cls = DictCursor if case["cursor"] == "dict" else SnowflakeCursor
    fs, conn = _prepare(case["style"], "other-schema", False)
    try:
        conn.cursor().execute("CREATE VIEW VS AS SELECT K, V FROM SRC")
        conn.cursor().execute("CREATE TABLE S9.SRC (ONLY_HERE INT)")
        conn.cursor().execute("CREATE VIEW S9.VS AS SELECT ONLY_HERE FROM S9.SRC")
        cur = conn.cursor(cls)
        seen_texts: dict[str, int] = {}
        n_ok = 0
        for k, (si, p1, p2) in enumerate(case["stmts"]):
            tpl = SEQ_STATEMENTS[si]
            ph = "?" if case["style"] == "qmark" else "%s"
            sql = tpl.replace("{p}", ph).replace("{n}", str(k))
            np_ = tpl.count("{p}")
            vals = [PVALS[p1], 1 if np_ == 2 else PVALS[p2]][:np_]
            params = (list(vals) if case["style"] == "qmark" else tuple(vals)) if np_ else None
            o = run(cur, sql, params, fetch=False)
            if not o.ok:
                continue  # e.g. the column was already dropped: not this facet's subject
            repeated = sql in seen_texts
            seen_texts[sql] = seen_texts.get(sql, 0) + 1
            try:
                d = cur.description if (case["read_every"] or repeated or k == len(case["stmts"]) - 1) else None
                rows = cur.fetchall()
            except Exception as e:
                ctx.fail(f"C06|sequence|description-or-fetch-raises|{etype_name(e)}", f"statement {k} `{sql}` {params!r} after {[SEQ_STATEMENTS[x[0]] for x in case['stmts'][:k]]}: {e}")
                return
            n_ok += 1
            if d is None:
                continue
            if repeated:
                ctx.cls("same-text-executed-again")
                ctx.nontrivial = True
            where = f"statement {k} `{sql}` {params!r} after {[SEQ_STATEMENTS[x[0]] for x in case['stmts'][:k]]}"
            if rows:
                width = len(rows[0])
                if width != len(d):
                    ctx.fail(f"C06|sequence|width-differs|{'same-text-again' if repeated else 'first-time'}", f"{where}: description has {len(d)} entries {[c.name for c in d]}, rows have {width}")
                    return
                if case["cursor"] == "dict" and list(rows[0].keys()) != [c.name for c in d]:
                    ctx.fail(f"C06|sequence|names-differ-from-dict-keys|{'same-text-again' if repeated else 'first-time'}", f"{where}: {[c.name for c in d]} vs {list(rows[0].keys())}")
                    return
                for r in rows:
                    vals_ = list(r.values()) if isinstance(r, dict) else list(r)
                    for md, v in zip(d, vals_):
                        why = _value_agrees(md, v)
                        if why and why != "FIXED-scale0-but-Decimal":
                            ctx.fail(f"C06|sequence|type-disagrees|{why}|{'same-text-again' if repeated else 'first-time'}", f"{where}: column {md.name} described {NAMES.get(md.type_code, md.type_code)}({md.precision},{md.scale}) holds {v!r}")
                            return
            else:
                # no rows to compare with: compare with a fresh cursor describing the same statement now
                try:
                    d2 = conn.cursor().describe(sql, params) if sql.lstrip().upper().startswith("SELECT") else None
                except Exception:
                    d2 = None
                if d2 is not None and d2 != d:
                    ctx.fail(f"C06|sequence|stale-description|{'same-text-again' if repeated else 'first-time'}", f"{where}: {d} vs fresh describe {d2}")
                    return
        ctx.nontrivial = ctx.nontrivial or n_ok >= 3
    finally:
        close_instance(fs)


PROP = Prop(
    id="C06",
    facets=[
        Facet(
            name="description",
            strategy=_case,
            run=run_description,
            rule=(
                f"Hypothesis draws one of {len(STATEMENTS)} statements of every kind (queries over 13 column types and ~40 expression forms, "
                "INSERT/UPDATE/DELETE/TRUNCATE/MERGE, CREATE/ALTER/DROP/COMMENT, USE, BEGIN/COMMIT/ROLLBACK inside and outside a transaction, "
                "SET/UNSET, SHOW/DESCRIBE, information_schema, seeded RANDOM/SAMPLE, tag/cluster-by/nop_regexes no-ops), 4 parameterised "
                "statements under pyformat and qmark, x tuple/dict cursor x the point where description is read (before any fetch, between "
                "fetches, after exhaustion, twice). Oracle: description does not raise, has one entry per column with the DictCursor keys, "
                "agrees with the Python type of every non-NULL fetched value and with declared column types, equals cursor.describe() on a "
                "fresh twin (which must not execute the statement), and reading it leaves rows, state snapshot, context and open transaction "
                "unchanged. Non-trivial: any statement but a plain SELECT *, or a mid-fetch read."
            ),
            quick=110,
            thorough=1500,
            budget_quick=45,
        ),
        Facet(
            name="same_cursor_sequences",
            strategy=_seq_case,
            run=run_sequence,
            rule=(
                "2-7 statements on ONE cursor drawn (with repeats) from queries, parameterised queries (qmark/pyformat, values of "
                "different Python types for the same text), DDL that changes the shape of those queries' results (ALTER ADD/DROP COLUMN, "
                "CREATE OR REPLACE TABLE/VIEW), USE SCHEMA to a schema holding same-named objects, DML, SHOW, DESCRIBE; description is "
                "read after every statement (or only when a text is executed again) and must agree with the rows fetched from that very "
                "execution (width, DictCursor keys, value types). Non-trivial: a statement text executed again after the shape changed, or >=3 statements."
            ),
            quick=60,
            thorough=800,
            quick_shards=4,
            budget_quick=40,
        ),
    ],
    assumptions=["internal_size/display_size are not asserted", "only statements that succeed are in the catalogue (twin run must succeed)"],
)
