"""C12 — MERGE leaves the target as Snowflake's MERGE would, with true counts."""

from __future__ import annotations

from hypothesis import strategies as st

from vf.engine import Ctx, Facet, InvalidCase, Prop
from vf.model.tables import and3, not3
from vf.util import close_instance, etype_name, new_instance, run, snapshot, sql_lit

COLS = ["K", "K2", "V", "N"]
IDX = {c: i for i, c in enumerate(COLS)}
_k = st.one_of(st.none(), st.integers(1, 4), st.integers(1, 4))
_k2 = st.integers(1, 2)
_v = st.one_of(st.none(), st.sampled_from(["a", "b", "x", ""]))
_n = st.one_of(st.none(), st.integers(0, 30))
_row = st.tuples(_k, _k2, _v, _n).map(list)

# conditions: ["S"|"T", col, op, const] | ["ST", colT, op, colS] | ["isnull", side, col]
_cond = st.one_of(
    st.tuples(st.sampled_from(["S", "T"]), st.just("N"), st.sampled_from([">", "<", "=", "<>", ">="]), st.integers(0, 30)).map(list),
    st.tuples(st.sampled_from(["S", "T"]), st.just("V"), st.sampled_from(["=", "<>"]), st.sampled_from(["a", "b", "x"])).map(list),
    st.tuples(st.just("ST"), st.sampled_from(["N", "V"]), st.sampled_from(["=", "<>", "<"]), st.just(None)).map(list),
    st.tuples(st.just("isnull"), st.sampled_from(["S", "T"]), st.sampled_from(["N", "V"]), st.just(None)).map(list),
)
# right-hand sides: ["scol", col] | ["const", v] | ["null"] | ["sexpr", col, k] (SRC.N + k) | ["texpr", k] (TGT.N + k)
_rhs_simple = st.one_of(st.tuples(st.just("scol"), st.just(None)).map(list), st.tuples(st.just("scol"), st.just(None)).map(list), st.tuples(st.just("const"), st.just(None)).map(list), st.just(["null", None]))
_rhs_any = st.one_of(_rhs_simple, st.tuples(st.just("sexpr"), st.integers(1, 5)).map(list), st.tuples(st.just("texpr"), st.integers(1, 5)).map(list))


@st.composite
def _clause(draw, kind, allow_cond_sides, rhs):
    cond = draw(st.one_of(st.none(), _cond))
    if cond is not None and kind == "insert" and cond[0] in ("T", "ST") or (cond is not None and cond[0] == "isnull" and kind == "insert" and cond[1] == "T"):
        cond = ["S", "N", ">", 10]
    c = {"kind": kind, "cond": cond}
    if kind == "update":
        cols = draw(st.lists(st.sampled_from(["V", "N"]), min_size=1, max_size=2, unique=True))
        c["set"] = [[col, draw(rhs)] for col in cols]
    elif kind == "insert":
        c["cols"] = draw(st.sampled_from([None, ["K", "K2", "V", "N"], ["K", "V"], ["N", "K", "K2"], ["K"]]))
        c["vals"] = [draw(rhs) for _ in (c["cols"] or COLS)]
    return c


@st.composite
def _case(draw, tier):
    mode = draw(st.sampled_from(["clean", "clean", "clean", "known-shapes", "known-shapes"]))
    clean = mode == "clean"
    rhs = _rhs_simple if clean else _rhs_any
    tgt = draw(st.lists(_row, max_size=6))
    src = draw(st.lists(_row, max_size=5))
    two_key = draw(st.booleans())
    if clean:
        # unique target keys, as far as the ON clause sees them
        seen, t2 = set(), []
        for r in tgt:
            key = (r[0], r[1]) if two_key else (r[0],)
            if r[0] is not None and key in seen:
                continue
            seen.add(key)
            t2.append(r)
        tgt = t2
    kinds = draw(st.lists(st.sampled_from(["update", "delete", "insert"]), min_size=1, max_size=4))
    clauses = [draw(_clause(k, None, rhs)) for k in kinds]
    # drop clauses made unreachable by an earlier unconditional clause of the same kind group
    kept, uncond = [], set()
    for c in clauses:
        grp = "m" if c["kind"] in ("update", "delete") else "n"
        if grp in uncond:
            continue
        if c["cond"] is None:
            uncond.add(grp)
        kept.append(c)
    clauses = kept
    not_null_n = (not clean) and draw(st.sampled_from([False, False, True]))
    if not_null_n:
        # a NOT NULL violation that arrives through the *last* step: an unmatched source row with N NULL, inserted by a final clause
        src = src + [[draw(st.integers(5, 8)), 1, "z", None]]
        if "n" not in uncond:
            clauses = clauses + [{"kind": "insert", "cond": None, "cols": None, "vals": [["scol", None]] * 4}]
    # (the ON condition written source-first, or naming the source in another letter case than USING does, is still the plain shape)
    spelling = draw(st.sampled_from(["plain", "plain", "on-reversed", "on-source-other-case"] if clean else ["plain", "plain", "plain", "alias", "alias-as", "subquery-source", "qualified", "lower-keywords", "on-reversed", "on-source-other-case"]))
    return {
        "mode": mode,
        "tgt": tgt,
        "src": src,
        "two_key": two_key,
        "clauses": clauses,
        "spelling": spelling,
        "not_null_n": not_null_n,
        "after": draw(st.sampled_from(["none", "helper-lookup", "show-tables", "second-merge"])),
    }


def _cmp(op, a, b):
    if a is None or b is None:
        return None
    return {"=": a == b, "<>": a != b, "<": a < b, ">": a > b, ">=": a >= b}[op]


def _eval_cond(c, t, s):
    if c is None:
        return True
    if c[0] == "S":
        return _cmp(c[2], s[IDX[c[1]]], c[3])
    if c[0] == "T":
        return _cmp(c[2], t[IDX[c[1]]], c[3])
    if c[0] == "ST":
        return _cmp(c[2], t[IDX[c[1]]], s[IDX[c[1]]])
    if c[0] == "isnull":
        row = s if c[1] == "S" else t
        return row[IDX[c[2]]] is None
    raise InvalidCase()


def _cond_sql(c, T, S):
    if c is None:
        return ""
    if c[0] in ("S", "T"):
        return f" AND {S if c[0] == 'S' else T}.{c[1]} {c[2]} {sql_lit(c[3])}"
    if c[0] == "ST":
        return f" AND {T}.{c[1]} {c[2]} {S}.{c[1]}"
    return f" AND {S if c[1] == 'S' else T}.{c[2]} IS NULL"


def _rhs_val(r, col, t, s):
    k = r[0]
    if k == "scol":
        return s[IDX[col]]
    if k == "const":
        return {"K": 9, "K2": 1, "V": "lit", "N": 7}[col]
    if k == "null":
        return None
    if k == "sexpr":
        if col != "N":
            return s[IDX[col]]
        return None if s[IDX["N"]] is None else s[IDX["N"]] + r[1]
    if k == "texpr":
        if col != "N" or t is None:
            return s[IDX[col]]
        return None if t[IDX["N"]] is None else t[IDX["N"]] + r[1]
    raise InvalidCase()


def _rhs_sql(r, col, T, S, in_insert):
    k = r[0]
    if k == "scol" or (k in ("sexpr", "texpr") and col != "N") or (k == "texpr" and in_insert):
        return f"{S}.{col}"
    if k == "const":
        return sql_lit({"K": 9, "K2": 1, "V": "lit", "N": 7}[col])
    if k == "null":
        return "NULL"
    if k == "sexpr":
        return f"{S}.N + {r[1]}"
    return f"{T}.N + {r[1]}"


def reference_merge(tgt, src, two_key, clauses):
    """Documented semantics on the pre-merge snapshot. -> (new target multiset, counts dict) or None if nondeterministic."""

    def joins(t, s):
        a = _cmp("=", t[0], s[0])
        if two_key:
            a = and3(a, _cmp("=", t[1], s[1]))
        return a is True

    out, counts = [], {"inserted": 0, "updated": 0, "deleted": 0}
    for t in tgt:
        ms = [s for s in src if joins(t, s)]
        if len(ms) > 1:
            return None
        if not ms:
            out.append(tuple(t))
            continue
        s = ms[0]
        applied = False
        for c in clauses:
            if c["kind"] == "insert":
                continue
            if _eval_cond(c["cond"], t, s) is True:
                if c["kind"] == "delete":
                    counts["deleted"] += 1
                else:
                    nt = list(t)
                    for col, r in c["set"]:
                        nt[IDX[col]] = _rhs_val(r, col, t, s)
                    out.append(tuple(nt))
                    counts["updated"] += 1
                applied = True
                break
        if not applied:
            out.append(tuple(t))
    for s in src:
        if any(joins(t, s) for t in tgt):
            continue
        for c in clauses:
            if c["kind"] != "insert":
                continue
            if _eval_cond(c["cond"], None, s) is True:
                cols = c["cols"] or COLS
                row = {col: _rhs_val(r, col, None, s) for col, r in zip(cols, c["vals"])}
                out.append(tuple(row.get(col) for col in COLS))
                counts["inserted"] += 1
                break
    return out, counts


def _shapes(case, tgt, src) -> list[str]:
    sh = []
    if case["spelling"] in ("alias", "alias-as"):
        sh.append("table-aliases")
    if case["spelling"] == "qualified":
        sh.append("qualified-names")
    keyf = (lambda r: (r[0], r[1])) if case["two_key"] else (lambda r: (r[0],))
    keys = [keyf(r) for r in tgt if r[0] is not None]
    if len(keys) != len(set(keys)):
        sh.append("duplicate-target-keys")
    for c in case["clauses"]:
        pairs = [(col, r) for col, r in c.get("set", [])] + list(zip(c.get("cols") or COLS, c.get("vals", [])))
        for col, r in pairs:
            if col == "N" and (r[0] == "sexpr" or (r[0] == "texpr" and c["kind"] == "update")):
                sh.append("expression-right-hand-side")
    return sorted(set(sh))


def run_merge(case, ctx: Ctx) -> None:
    tgt = [list(r) for r in case["tgt"]]
    src = [list(r) for r in case["src"]]
    clauses = case["clauses"]
    if any(len(r) != 4 for r in tgt + src) or not clauses or case["spelling"] not in ("plain", "alias", "alias-as", "subquery-source", "qualified", "lower-keywords", "on-reversed", "on-source-other-case"):
        raise InvalidCase()
    for c in clauses:
        if c["kind"] not in ("update", "delete", "insert") or (c["kind"] == "insert" and len(c["vals"]) != len(c["cols"] or COLS)):
            raise InvalidCase()
        if c["kind"] == "insert" and c["cond"] is not None and (c["cond"][0] in ("T", "ST") or (c["cond"][0] == "isnull" and c["cond"][1] == "T")):
            raise InvalidCase()
    # Snowflake: an unconditional clause must be the last of its kind (later ones would be unreachable)
    for kind_set in (("update", "delete"), ("insert",)):
        seen_uncond = False
        for c in clauses:
            if c["kind"] in kind_set:
                if seen_uncond:
                    raise InvalidCase()
                if c["cond"] is None:
                    seen_uncond = True
    two_key = bool(case["two_key"])
    ref = reference_merge(tgt, src, two_key, clauses)
    if ref is None:
        ctx.excluded += 1  # nondeterministic merge (a target row joins several source rows): outside the property
        return
    want_rows, counts = ref
    sp = case["spelling"]
    T, S = ("t", "s") if sp in ("alias", "alias-as") else ("TGT", "SRC")
    tname, sname = ("DB1.S1.TGT", "DB1.S1.SRC") if sp == "qualified" else ("TGT", "SRC")
    into = f"{tname} {T}" if sp == "alias" else (f"{tname} AS {T}" if sp == "alias-as" else tname)
    using = f"{sname} {S}" if sp == "alias" else (f"{sname} AS {S}" if sp == "alias-as" else ("(SELECT * FROM SRC) AS SRC" if sp == "subquery-source" else sname))
    if sp == "on-reversed":
        on = f"{S}.K = {T}.K" + (f" AND {S}.K2 = {T}.K2" if two_key else "")
    elif sp == "on-source-other-case":
        on = f"{T}.K = src.K" + (f" AND {T}.K2 = Src.K2" if two_key else "")
    else:
        on = f"{T}.K = {S}.K" + (f" AND {T}.K2 = {S}.K2" if two_key else "")
    parts = []
    for c in clauses:
        if c["kind"] == "update":
            parts.append(f"WHEN MATCHED{_cond_sql(c['cond'], T, S)} THEN UPDATE SET " + ", ".join(f"{col} = {_rhs_sql(r, col, T, S, False)}" for col, r in c["set"]))
        elif c["kind"] == "delete":
            parts.append(f"WHEN MATCHED{_cond_sql(c['cond'], T, S)} THEN DELETE")
        else:
            cols = c["cols"] or COLS
            parts.append(f"WHEN NOT MATCHED{_cond_sql(c['cond'], T, S)} THEN INSERT{' (' + ', '.join(cols) + ')' if c['cols'] else ''} VALUES (" + ", ".join(_rhs_sql(r, col, T, S, True) for col, r in zip(cols, c["vals"])) + ")")
    sql = f"MERGE INTO {into} USING {using} ON {on} " + " ".join(parts)
    if sp == "lower-keywords":
        sql = sql.lower().replace("'lit'", "'lit'")
    # with the ON condition written source-first the tables are also named so that the target sorts before the source
    q = (lambda x: x.replace("TGT", "ATGT").replace("SRC", "ZSRC")) if sp == "on-reversed" else (lambda x: x)  # noqa: E731
    sql = q(sql)
    shapes = _shapes(case, tgt, src)
    # one primary shape per case (the first that applies) keeps one signature per root cause
    shape = next((x for x in ("table-aliases", "qualified-names", "expression-right-hand-side", "duplicate-target-keys") if x in shapes), "clean")
    fails_expected = False
    if case.get("not_null_n"):
        # a NOT NULL violation injected through the last step: the merge must fail as a whole
        fails_expected = any(r[3] is None for r in want_rows) and True

    fs = new_instance()
    try:
        conn = fs.connect("db1", "s1")
        cur = conn.cursor()
        cur.execute(q(f"CREATE TABLE TGT (K INT, K2 INT, V VARCHAR, N INT{' NOT NULL' if case.get('not_null_n') else ''})"))
        cur.execute(q("CREATE TABLE SRC (K INT, K2 INT, V VARCHAR, N INT)"))
        cur.execute("CREATE TABLE BYSTANDER (X INT)")
        cur.execute("INSERT INTO BYSTANDER VALUES (1), (2)")
        if case.get("not_null_n"):
            tgt = [r for r in tgt if r[3] is not None]
            ref = reference_merge(tgt, src, two_key, clauses)
            if ref is None:
                ctx.excluded += 1
                return
            want_rows, counts = ref
            fails_expected = any(r[3] is None for r in want_rows)
        for name, rows in (("TGT", tgt), ("SRC", src)):
            if rows:
                cur.execute(q(f"INSERT INTO {name} VALUES ") + ", ".join("(" + ", ".join(sql_lit(v) for v in r) + ")" for r in rows))
        kinds = [c["kind"] for c in clauses]
        ctx.cls(f"shape:{shape}", "clauses:" + "+".join(kinds), f"spelling:{sp}", "two-key" if two_key else "one-key")
        matched_n = counts["updated"] + counts["deleted"]
        ctx.nontrivial = (matched_n >= 1 and counts["inserted"] >= 1 and len(clauses) >= 2) or "duplicate-target-keys" in shapes or any(r[0] is None for r in tgt) or any(c["cond"] is not None for c in clauses)
        sig = lambda what: f"C12|{what}|shape={shape}"  # noqa: E731
        before = snapshot(fs)
        o = run(cur, sql)
        if o.ok and shape == "expression-right-hand-side" and "duplicate-target-keys" in shapes:
            shape = "duplicate-target-keys"  # the expression was accepted: what can still go wrong here is the re-join by key
        where = f"{sql}   -- TGT={tgt} SRC={src}"
        ms = lambda rows: sorted((tuple(r) for r in rows), key=repr)  # noqa: E731
        if fails_expected:
            if o.ok:
                ctx.fail("C12|constraint-violation-not-raised", where)
            after = snapshot(fs)
            if after["rows"].get(q("DB1.S1.TGT")) != before["rows"].get(q("DB1.S1.TGT")):
                ctx.fail("C12|not-atomic|partial-effects-after-failure", f"{where}: TGT {before['rows'].get(q('DB1.S1.TGT'))} -> {after['rows'].get(q('DB1.S1.TGT'))}; error {o}")
            return
        if not o.ok:
            ctx.fail(sig(f"raises|{o.etype}"), f"{where}: {o}")
            return
        # status row: the count columns present, by value
        try:
            names = [d.name for d in cur.description]
        except Exception as e:
            names = None
            ctx.fail(sig(f"description-raises|{etype_name(e)}"), str(e))
        present = [k for k in ("inserted", "updated", "deleted") if any((c["kind"] == "insert" and k == "inserted") or (c["kind"] == "update" and k == "updated") or (c["kind"] == "delete" and k == "deleted") for c in clauses)]
        if names is not None and names != [f"number of rows {k}" for k in present]:
            ctx.fail(sig("status-columns"), f"{where}: {names}")
        elif len(o.rows) != 1 or len(o.rows[0]) != len(present):
            ctx.fail(sig("status-shape"), f"{where}: {o.rows}")
        else:
            got = o.rows[0]
            want = [counts[k] for k in present]
            if any(g is None for g in got):
                if sum(counts.values()) == 0:
                    ctx.fail("C12|counts-null|no-candidates", f"{where}: status {got}, want {want}")
                else:
                    ctx.fail(sig("counts-null|some-candidates"), f"{where}: status {got}, want {want}")
            elif [int(g) for g in got] != want:
                ctx.fail(sig("wrong-counts"), f"{where}: status {got}, want {dict(zip(present, want))}")
            elif any(not isinstance(g, int) for g in got):
                ctx.fail("C12|counts-not-int", f"{where}: status {got!r}")
        chk = conn.cursor()
        rt = run(chk, q("SELECT K, K2, V, N FROM TGT"))
        if not rt.ok or ms(rt.rows) != ms(want_rows):
            ctx.fail(sig("wrong-target"), f"{where}: TGT = {ms(rt.rows) if rt.ok else rt}, documented {ms(want_rows)}")
        rs = run(chk, q("SELECT K, K2, V, N FROM SRC"))
        if not rs.ok or ms(rs.rows) != ms(src):
            ctx.fail(sig("source-changed"), f"{where}: SRC = {rs}")
        rb = run(chk, "SELECT X FROM BYSTANDER ORDER BY X")
        if not rb.ok or rb.rows != [(1,), (2,)]:
            ctx.fail(sig("bystander-changed"), f"{rb}")
        after = case.get("after", "none")
        if after == "helper-lookup":
            oh = run(conn.cursor(), "SELECT * FROM MERGE_CANDIDATES")
            if oh.ok:
                ctx.fail("C12|helper-object-visible|name-lookup", f"after {sql}: SELECT * FROM MERGE_CANDIDATES returned {len(oh.rows)} rows")
        elif after == "show-tables":
            for lq in ("SHOW TABLES IN ACCOUNT", "SELECT table_catalog, table_schema, table_name FROM information_schema.tables", "SHOW OBJECTS IN DATABASE DB1"):
                oh = run(conn.cursor(), lq)
                if oh.ok and any("MERGE_CANDIDATES" in str(r).upper() for r in oh.rows):
                    ctx.fail("C12|helper-object-visible|listing", f"{lq}: {[r for r in oh.rows if 'MERGE_CANDIDATES' in str(r).upper()]}")
            s_after = snapshot(fs, rows=False)
            extra = set(map(tuple, s_after["tables"])) - set(map(tuple, before["tables"]))
            if extra:
                ctx.fail("C12|helper-object-visible|engine-catalog", f"{sorted(extra)}")
        elif after == "second-merge":
            o2 = run(conn.cursor(), sql)
            ref2 = reference_merge([list(r) for r in want_rows], src, two_key, clauses)
            if ref2 is not None:
                if not o2.ok:
                    ctx.fail(sig(f"second-merge-raises|{o2.etype}"), f"{o2}")
                else:
                    rt2 = run(chk, q("SELECT K, K2, V, N FROM TGT"))
                    if rt2.ok and ms(rt2.rows) != ms(ref2[0]):
                        ctx.fail(sig("wrong-target|second-merge"), f"{where} twice: TGT = {ms(rt2.rows)}, documented {ms(ref2[0])}")
    finally:
        close_instance(fs)


def _selftest() -> None:
    # the four scenarios of the repo's tests/test_merge.py, through the reference interpreter
    t = [[1, 1, "t1", 10], [2, 1, "t2", 20]]
    s = [[1, 1, "s1", 100], [3, 1, "s3", 300]]
    rows, cnt = reference_merge(t, s, False, [{"kind": "update", "cond": None, "set": [["V", ["scol", None]]]}, {"kind": "insert", "cond": None, "cols": None, "vals": [["scol", None]] * 4}])
    assert sorted(rows) == sorted([(1, 1, "s1", 10), (2, 1, "t2", 20), (3, 1, "s3", 300)]) and cnt == {"inserted": 1, "updated": 1, "deleted": 0}
    rows, cnt = reference_merge(t, s, False, [{"kind": "delete", "cond": ["S", "N", ">", 50]}, {"kind": "update", "cond": None, "set": [["N", ["null", None]]]}])
    assert sorted(rows) == [(2, 1, "t2", 20)] and cnt["deleted"] == 1 and cnt["updated"] == 0
    # NULL keys never join; unmatched source rows are inserted
    rows, cnt = reference_merge([[None, 1, "tn", 0]], [[None, 1, "sn", 1]], False, [{"kind": "delete", "cond": None}, {"kind": "insert", "cond": None, "cols": ["K", "V"], "vals": [["scol", None], ["const", None]]}])
    assert sorted(rows, key=repr) == sorted([(None, 1, "tn", 0), (None, None, "lit", None)], key=repr) and cnt["inserted"] == 1
    assert reference_merge([[1, 1, "a", 1]], [[1, 1, "x", 1], [1, 2, "y", 2]], False, [{"kind": "delete", "cond": None}]) is None
    assert not3(None) is None


PROP = Prop(
    id="C12",
    selftest=_selftest,
    facets=[
        Facet(
            name="merge",
            strategy=_case,
            run=run_merge,
            rule=(
                "Hypothesis draws target (0-6 rows) and source (0-5 rows) tables (K, K2, V, N) with NULL keys, one- or two-column ON, and 1-4 "
                "clauses from {MATCHED [AND c] UPDATE SET.., MATCHED [AND c] DELETE, NOT MATCHED [AND c] INSERT [(cols)] VALUES..} with "
                "conditions over target and/or source columns. 3/4 of the cases are 'clean' (unique target keys, SET/VALUES right-hand sides "
                "that are source columns / constants / NULL, plain spelling); 1/4 draw the shapes with listed findings (duplicate target keys, "
                "expression right-hand sides, table aliases, qualified names, sub-query source, lower-case keywords, a NOT NULL violation in "
                "the last step) which are classified by shape. Nondeterministic merges are discarded and counted. Oracle: MERGE interpreter "
                "on the pre-merge snapshot: target multiset, present count columns by value, source and bystander unchanged, helper object "
                "not visible afterwards, a repeated merge. Non-trivial: matched and unmatched source rows with >=2 clauses, duplicate or "
                "NULL target keys, or a conditional clause."
            ),
            quick=160,
            thorough=3000,
            budget_quick=55,
        )
    ],
    assumptions=[
        "an unconditional clause is generated only as the last of its kind (Snowflake rejects unreachable clauses)",
        "deterministic merges only (no target row joins more than one source row)",
    ],
)
