"""C02 — unquoted identifiers fold to upper case; quoted ones are kept verbatim (metamorphic re-spelling)."""

from __future__ import annotations

import re

from hypothesis import strategies as st
from snowflake.connector.cursor import DictCursor, SnowflakeCursor

from vf.engine import Ctx, Facet, InvalidCase, Prop
from vf.util import close_instance, new_instance, run

SETUP = [
    "create table t1 (id int, name varchar(20), amt number(10,2), d date)",
    "insert into t1 values (1, 'a', 1.50, '2020-01-31'), (2, 'B', 2.25, '2021-02-28'), (3, null, null, null)",
    "create table t2 (id int, note varchar)",
    "insert into t2 values (1, 'x'), (4, 'y')",
    'create table "MixedCase" ("Col A" int, "lower" varchar)',
    "insert into \"MixedCase\" values (7, 'q')",
    "create schema s2",
    "create table s2.t3 (k int)",
    "set myvar = 2",
    'create database "MixDb"',
    'create schema "MixDb"."Sc"',
    'create schema "lowSch"',
]

# (label, sql, expected description names or None)
POOL: list[tuple[str, str, list[str] | None]] = [
    ("select-alias", 'select id as foo, name as "Bar", amt from t1 order by id', ["FOO", "Bar", "AMT"]),
    ("select-quoted-table", 'select "Col A", "lower" as up from "MixedCase"', ["Col A", "UP"]),
    ("select-star", "select * from t1 order by id", None),
    ("join", "select a.id, b.note as n from t1 a join t2 b on a.id = b.id order by 1", ["ID", "N"]),
    ("left-join-using", "select t1.id, note from t1 left join t2 using (id) order by t1.id", None),
    ("cte", "with c as (select id as cid from t1 where id > 1) select cid from c order by cid", ["CID"]),
    ("subquery", "select cnt from (select count(*) as cnt from t1) q", ["CNT"]),
    ("group-by", "select name, count(*) as n, sum(amt) as total from t1 group by name order by name nulls last", ["NAME", "N", "TOTAL"]),
    ("window", "select id, row_number() over (order by id desc) as rn from t1 order by id", ["ID", "RN"]),
    ("values", "select column1, column2 as v from values (1, 'a'), (2, 'b') order by column1", ["COLUMN1", "V"]),
    ("identifier-fn", "select id from identifier('t1') order by id", ["ID"]),
    ("case-bool-null", "select case when id > 1 then true else false end as big, null as nothing, id is not null as has from t1 order by id", ["BIG", "NOTHING", "HAS"]),
    ("functions", "select upper(name) as u, coalesce(name, 'zz') as c, length(name) as l, nvl(amt, 0) as a from t1 order by id", ["U", "C", "L", "A"]),
    ("date-parts", "select dateadd(month, 1, d) as m, datediff(day, d, '2022-01-01'::date) as dd, dateadd(YEAR, 1, d) as y from t1 order by id", ["M", "DD", "Y"]),
    ("casts", "select id::varchar as s, amt::float as f, '5'::int as i, cast(id as number(5,1)) as n, to_decimal('1.5', 5, 1) as td from t1 order by id", ["S", "F", "I", "N", "TD"]),
    ("like-in-between", "select id from t1 where name like 'a%' or id in (2, 3) and amt between 0 and 5 order by id", ["ID"]),
    ("variable", "select $myvar as v, id from t1 where id = $MyVar", ["V", "ID"]),
    ("insert", "insert into t1 (id, name) values (10, 'ten'), (11, 'eleven')", ["number of rows inserted"]),
    ("insert-select", "insert into t2 select id, name from t1 where id < 3", ["number of rows inserted"]),
    ("update", "update t1 set name = 'upd', amt = amt + 1 where id = 1", None),
    ("delete", "delete from t2 where id = 4", ["number of rows deleted"]),
    ("truncate", "truncate table t2", None),
    ("create-table", "create table newt (a int, b varchar(5) not null, c timestamp_ntz)", ["status"]),
    ("create-table-quoted", 'create table "newQ" ("a b" int)', ["status"]),
    ("create-or-replace", "create or replace table t2 (id int, note varchar, extra boolean)", ["status"]),
    ("ctas", "create table copy1 as select id, name from t1", ["status"]),
    ("clone", "create table clone1 clone t1", ["status"]),
    ("create-view", "create view v1 as select id, name from t1", ["status"]),
    ("alter-add", "alter table t1 add column extra int", ["status"]),
    ("alter-rename", "alter table t2 rename to t2b", ["status"]),
    ("comment-on", "comment on table t1 is 'Keep This Case'", ["status"]),
    ("create-with-comment", "create table cmt (i int) comment = 'MiXed comment'", ["status"]),
    ("drop-table", "drop table t2", ["status"]),
    ("drop-quoted", 'drop table "MixedCase"', ["status"]),
    ("create-schema", "create schema s3", ["status"]),
    ("drop-schema", "drop schema s2", ["status"]),
    ("create-database", "create database db2", ["status"]),
    ("use-schema", "use schema s2", None),
    ("use-schema-qualified", "use schema db1.s2", None),
    ("use-database", "use database db1", None),
    ("unqualified-after-use", "select k from t3", ["K"]),
    ("merge-update-insert", "merge into t2 using t1 on t2.id = t1.id when matched then update set note = t1.name when not matched then insert (id, note) values (t1.id, t1.name)", None),
    ("merge-delete", "merge into t2 using t1 on t2.id = t1.id when matched then delete", None),
    ("merge-conditional", "merge into t2 using t1 on t2.id = t1.id when matched and t1.id = 1 then delete when matched then update set note = 'm' when not matched and t1.id > 2 then insert (id, note) values (t1.id, 'new')", None),
    ("show-tables", "show tables in schema db1.s1", None),
    ("show-terse-objects", "show terse objects in database db1", None),
    ("show-schemas", "show schemas in database db1", None),
    ("describe-table", "describe table t1", None),
    ("describe-quoted", 'describe table "MixedCase"', None),
    ("describe-view", "describe view v1", None),
    ("info-schema-tables", "select table_name, table_type, comment from information_schema.tables where table_schema = 'S1' order by table_name", ["TABLE_NAME", "TABLE_TYPE", "COMMENT"]),
    ("info-schema-columns", "select table_name, column_name, data_type from information_schema.columns where table_schema = 'S1' order by table_name, ordinal_position", None),
    ("set", "set other = 'Value Kept'", None),
    ("use-set", "select $other as o", ["O"]),
    ("unset", "unset myvar", None),
    ("begin", "begin", None),
    ("begin-transaction", "begin transaction", None),
    ("commit", "commit", None),
    ("rollback", "rollback", None),
    ("missing-table", "select * from no_such_table", None),
    ("missing-column", "select no_such_col from t1", None),
    ("semi-structured", "select parse_json('{\"Key\": \"Val\"}') as j, object_construct('K', 1) as o, array_size(parse_json('[1,2]')) as n", ["J", "O", "N"]),
    ("create-quoted-database", 'create database "OtherDb"', ["status"]),
    ("create-quoted-schema-qualified", 'create schema "MixDb"."Sc2"', ["status"]),
    ("use-quoted-schema-qualified", 'use schema "MixDb"."Sc"', None),
    ("use-quoted-database", 'use database "MixDb"', None),
    ("use-quoted-schema", 'use schema "Sc"', None),
    ("create-quoted-schema", 'create schema "lowSch2"', ["status"]),
    ("use-quoted-schema-current-db", 'use schema "lowSch"', None),
    ("show-tables-current-database", "show terse tables in database", None),
    ("create-table-unqualified", "create table made_here (i int)", ["status"]),
    ("regexp", "select regexp_replace(name, 'A', 'z') as r, regexp_substr(name, '[a-z]+') as s from t1 order by id", ["R", "S"]),
    ("sample-seeded", "select id from t1 sample (100) seed (3) order by id", ["ID"]),
    # appended later (earlier indices are referred to by committed replay cases)
    ("current-functions-unaliased", "select current_database(), current_schema()", None),
    ("identifier-create", "create table identifier('made_by_ident') (i int)", ["status"]),
    ("identifier-drop", "drop table identifier('made_by_ident')", ["status"]),
    ("identifier-insert", "insert into identifier('t1') (id) values (77)", None),
]
LABELS = [p[0] for p in POOL]
# label -> (database, schema) the session must report after the statement succeeded; None = keep that part
EXPECT_CTX = {
    "use-quoted-schema-qualified": ("MixDb", "Sc"),
    "use-quoted-database": ("MixDb", None),
    "use-quoted-schema": (None, "Sc"),
    "use-quoted-schema-current-db": (None, "lowSch"),
    "use-schema": (None, "S2"),
    "use-schema-qualified": ("DB1", "S2"),
    "use-database": ("DB1", None),
}

_TOKEN = re.compile(r"""('(?:[^']|'')*')|("(?:[^"]|"")*")|(\$?[A-Za-z_][A-Za-z0-9_$]*)|([0-9][0-9A-Za-z.]*)|(\s+)|(.)""", re.S)


def tokens(sql: str) -> list[tuple[str, str]]:
    out = []
    for m in _TOKEN.finditer(sql):
        lit, qid, word, num, ws, other = m.groups()
        if lit is not None:
            out.append(("lit", lit))
        elif qid is not None:
            out.append(("qid", qid))
        elif word is not None:
            out.append(("word", word))
        elif num is not None:
            out.append(("num", num))
        elif ws is not None:
            out.append(("ws", ws))
        else:
            out.append(("sym", other))
    return out


def respell(sql: str, masks: list[int]) -> str:
    """Change the letter case of keywords and unquoted identifiers only; mask i drives word i (0 lower, 1 upper, else per-char bits)."""
    out, wi = [], 0
    prev: list[str] = []  # the last two non-blank tokens, lower-cased
    for kind, text in tokens(sql):
        ident_literal = kind == "lit" and prev[-2:] == ["identifier", "("] and '"' not in text
        if kind != "ws":
            prev = (prev + [text.lower()])[-2:]
        if kind == "word" or ident_literal:  # the literal of IDENTIFIER('name') spells an unquoted identifier
            mk = masks[wi % len(masks)] if masks else 0
            wi += 1
            if mk == 0:
                text = text.lower()
            elif mk == 1:
                text = text.upper()
            else:
                text = "".join(ch.upper() if (mk >> (i % 16)) & 1 else ch.lower() for i, ch in enumerate(text))
        out.append(text)
    return "".join(out)


@st.composite
def _case(draw, tier):
    n = draw(st.integers(3, 10 if tier == "quick" else 16))
    stmts = [draw(st.integers(0, len(POOL) - 1)) for _ in range(n)]
    masks = draw(st.lists(st.one_of(st.just(0), st.just(1), st.integers(2, 65535)), min_size=1, max_size=12))
    return {"stmts": stmts, "masks": masks, "dict_cursor": draw(st.booleans()), "one_cursor": draw(st.booleans())}


def _outcome(cur, conn, sql):
    o = run(cur, sql)
    desc = None
    if o.ok:
        try:
            desc = [(c.name, c.type_code) for c in cur.description]
        except Exception as e:
            desc = f"description raised {type(e).__name__}"
    keys = list(o.rows[0].keys()) if o.ok and o.rows and isinstance(o.rows[0], dict) else None
    rows = [tuple(r.values()) if isinstance(r, dict) else tuple(r) for r in o.rows] if o.ok else None
    return {"ok": o.ok, "err": o.err_key() if not o.ok else None, "rowlist": rows, "rows": repr(rows), "rowcount": o.rowcount, "desc": desc, "keys": keys, "ctx": (conn.database, conn.schema), "msg": None if o.ok else str(o.msg)[:200]}


def run_script(case, ctx: Ctx) -> None:
    stmts, masks = case["stmts"], case["masks"]
    stmts = [LABELS.index(i) if isinstance(i, str) and i in LABELS else i for i in stmts]  # hand-written cases name statements
    if not masks or any(not isinstance(i, int) or not 0 <= i < len(POOL) for i in stmts) or any(not isinstance(m, int) or m < 0 for m in masks):
        raise InvalidCase()
    a, b = new_instance(), new_instance()
    try:
        ca, cb = a.connect("db1", "s1"), b.connect("db1", "s1")
        cls = DictCursor if case.get("dict_cursor") else SnowflakeCursor
        cura, curb = ca.cursor(cls), cb.cursor(cls)
        for s in SETUP:
            ca.cursor().execute(s)
            cb.cursor().execute(s)
        changed_ok = False
        has_q = has_u = False
        for k, i in enumerate(stmts):
            label, sql, names = POOL[i]
            sql_b = respell(sql, masks[k % len(masks) :] + masks[: k % len(masks)])
            if not case.get("one_cursor"):
                cura, curb = ca.cursor(cls), cb.cursor(cls)
            oa, ob = _outcome(cura, ca, sql), _outcome(curb, cb, sql_b)
            ctx.cls(f"stmt:{label}")
            has_q = has_q or '"' in sql
            has_u = True
            if oa["ok"] and sql_b != sql:
                changed_ok = True
            # The one table created through IDENTIFIER('made_by_ident'): whether its name is folded is judged on its own (one
            # signature, below), so that observers listing it do not all report the same root cause under their own names.
            fold = lambda v: re.sub("made_by_ident", "MADE_BY_IDENT", v, flags=re.I) if isinstance(v, str) else v  # noqa: E731
            for side, o_, q_ in (("as-written", oa, sql), ("re-spelled", ob, sql_b)):
                m_ = re.search("made_by_ident", o_["rows"] or "", flags=re.I) if o_["ok"] and label not in ("identifier-create", "identifier-drop") else None
                if m_ and m_.group(0) != "MADE_BY_IDENT":
                    ctx.fail("C02|identifier-literal|object-name-not-folded", f"`{q_}` ({side}) lists the table created by IDENTIFIER('made_by_ident') as {m_.group(0)!r}; an unquoted name folds to upper case")
            if label in ("identifier-create", "identifier-drop"):
                for side, o_, q_ in (("as-written", oa, sql), ("re-spelled", ob, sql_b)):
                    if o_["ok"] and "MADE_BY_IDENT " not in (o_["rows"] or ""):
                        ctx.fail("C02|identifier-literal|status-message-not-folded", f"`{q_}` ({side}) answered {o_['rows']}; the status names the object in upper case")
            if re.search("made_by_ident", (oa["rows"] or "") + (ob["rows"] or ""), flags=re.I) and oa["rowlist"] is not None and ob["rowlist"] is not None:
                # ... and where the listing is ordered by name, the unfolded name also sorts elsewhere
                oa = {**oa, "rows": repr(sorted(fold(repr(r)) for r in oa["rowlist"]))}
                ob = {**ob, "rows": repr(sorted(fold(repr(r)) for r in ob["rowlist"]))}
            for what in ("ok", "err", "rows", "rowcount", "desc", "keys", "ctx"):
                if fold(oa[what]) != fold(ob[what]):
                    if what in ("ok", "err"):
                        disc = f"{'ok' if oa['ok'] else oa['err'][0]}-vs-{'ok' if ob['ok'] else ob['err'][0]}"
                    else:
                        disc = what
                    ctx.fail(
                        f"C02|respelling-changes-outcome|{label}|{disc}",
                        f"`{sql}` -> {oa[what]!r} {oa['msg'] or ''} ;; `{sql_b}` -> {ob[what]!r} {ob['msg'] or ''}",
                    )
                    return  # the two instances have diverged
            if label in EXPECT_CTX and ob["ok"]:
                wd, ws = EXPECT_CTX[label]
                gd, gs = ob["ctx"]
                if (wd is not None and gd != wd) or (ws is not None and gs != ws):
                    ctx.fail(f"C02|reported-context|{label}", f"after `{sql_b}` conn.database/schema = {ob['ctx']}, want {(wd, ws)} (quoted names verbatim, unquoted upper-cased)")
            # direct: unquoted names are reported upper-cased, quoted ones verbatim
            if names is not None and ob["ok"] and isinstance(ob["desc"], list):
                got = [n for n, _ in ob["desc"]]
                if got != names:
                    ctx.fail(f"C02|reported-names|{label}", f"`{sql_b}` reported {got}, want {names}")
                if ob["keys"] is not None and ob["keys"] != names:
                    ctx.fail(f"C02|dict-keys|{label}", f"`{sql_b}` keys {ob['keys']}, want {names}")
        ctx.nontrivial = changed_ok and has_q and has_u
    finally:
        close_instance(a)
        close_instance(b)


def _selftest() -> None:
    s = "select \"Col A\", 'It''s' as x, $v1 from t1 where a = 1e3 -- c"
    assert respell(s, [1]) == "SELECT \"Col A\", 'It''s' AS X, $V1 FROM T1 WHERE A = 1e3 -- C"
    assert respell(s, [0]) == s.replace("-- c", "-- c")
    assert [t for k, t in tokens("a.b:c") if k == "word"] == ["a", "b", "c"]


PROP = Prop(
    id="C02",
    selftest=_selftest,
    facets=[
        Facet(
            name="respelled_scripts",
            strategy=_case,
            run=run_script,
            rule=(
                f"Hypothesis draws scripts of 3-10/16 statements from a pool of {len(POOL)} (queries with aliases/joins/CTEs/sub-queries/"
                "GROUP BY/window/VALUES/IDENTIFIER(), DML, CREATE/ALTER/DROP/CTAS/CLONE/VIEW/SCHEMA/DATABASE, USE, MERGE with every clause "
                "kind, SHOW/DESCRIBE, information_schema, SET/UNSET/$var, BEGIN/COMMIT/ROLLBACK, date parts, casts, failing statements) and a "
                "per-word case mask (lower / upper / per-character mix). The script runs as written on instance A and re-spelled on a fresh "
                "instance B: only keywords, function/type names and unquoted identifiers change case; string literals, quoted identifiers and "
                "numbers are untouched. After every statement ok/error class+errno+sqlstate, rows, rowcount, description names and type "
                "codes, DictCursor keys, conn.database/schema must be equal; reported names must be the upper-cased (unquoted) or verbatim "
                "(quoted) identifiers. Non-trivial: the re-spelling changed a statement that succeeded and the script has quoted and unquoted identifiers."
            ),
            quick=120,
            thorough=1500,
            budget_quick=60,
        )
    ],
    assumptions=[
        "distinctness of \"x\" and X is not asserted (DuckDB is case-insensitive; the property does not state it)",
        "error message text is not compared (it may quote the user's spelling)",
        "JSON path syntax (v:a.b) is not used in the pool because path keys are case-sensitive",
    ],
)
