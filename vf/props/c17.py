"""C17 — the HTTP server answers exactly like the in-process fake (real connector over loopback vs FakeSnow.connect)."""

from __future__ import annotations

import datetime as dt
import gzip
import json
import logging
import socket
import threading
import time
from decimal import Decimal

import snowflake.connector
from hypothesis import strategies as st

from vf.engine import Ctx, Facet, InvalidCase, Prop
from vf.gen import values as gv
from vf.props import c06, c07
from vf.util import close_instance, dec, enc, etype_name, new_instance, run, same_value

logging.getLogger("snowflake.connector").setLevel(logging.CRITICAL)

_SERVER: dict = {}


def server_port() -> int:
    """One uvicorn server per worker process, started lazily (as tests/conftest.py does)."""
    if "port" not in _SERVER:
        import uvicorn

        import fakesnow.server

        s = socket.socket()
        s.bind(("127.0.0.1", 0))
        port = s.getsockname()[1]
        s.close()
        srv = uvicorn.Server(uvicorn.Config(fakesnow.server.app, port=port, log_level="critical"))
        th = threading.Thread(target=srv.run, name="vf-c17-server", daemon=True)
        th.start()
        t0 = time.time()
        while not srv.started:
            if time.time() - t0 > 20:
                raise RuntimeError("server did not start")
            time.sleep(0.02)
        _SERVER.update(port=port, server=srv)
    return _SERVER["port"]


def connect_http(database="db1", schema="s1", db_path=":isolated:"):
    params = {"CLIENT_OUT_OF_BAND_TELEMETRY_ENABLED": False}
    if db_path:
        params["FAKESNOW_DB_PATH"] = db_path
    return snowflake.connector.connect(
        user="fake", password="snow", account="fakesnow", host="localhost", port=server_port(), protocol="http",
        database=database, schema=schema, session_parameters=params, network_timeout=10, login_timeout=10,
    )


# column type -> (value strategy, literal renderer)
def _ts_lit(v):
    return f"'{v.isoformat(sep=' ')}'"


TYPES = {
    "BOOLEAN": (st.booleans(), lambda v: "TRUE" if v else "FALSE"),
    "INT": (gv.ints, str),
    "NUMBER(10,2)": (gv.decimals(10, 2), lambda v: format(v, "f")),
    "NUMBER(38,10)": (gv.decimals(38, 10), lambda v: format(v, "f")),
    "NUMBER(38,0)": (gv.decimals(38, 0).map(int), str),
    "FLOAT": (st.one_of(st.sampled_from([0.0, 1.5, -2.25, 1e300, 5e-324, 0.1]), st.integers(-(2**40), 2**40).map(lambda k: k / 1024.0)), lambda v: format(v, ".17e")),
    "VARCHAR": (gv.text(8), None),
    "DATE": (gv.dates, lambda v: f"'{v.isoformat()}'"),
    "TIME": (gv.times, lambda v: f"'{v.isoformat()}'"),
    "TIMESTAMP_NTZ": (gv.timestamps, _ts_lit),
    "TIMESTAMP_TZ": (gv.timestamps_tz, lambda v: f"'{v.replace(tzinfo=None).isoformat(sep=' ')}+00:00'"),
    "VARIANT": (gv.json_docs(6).map(lambda d: {"$json": d}), None),
}
TYPE_NAMES = sorted(TYPES)


@st.composite
def _value_case(draw, tier):
    ncols = draw(st.integers(1, 8 if tier == "quick" else 12))
    cols = [draw(st.sampled_from(TYPE_NAMES)) for _ in range(ncols)]
    nrows = draw(st.integers(0, 25 if tier == "quick" else 120))
    rows = []
    for _ in range(nrows):
        row = []
        for t in cols:
            v = draw(st.one_of(st.none(), TYPES[t][0], TYPES[t][0], TYPES[t][0]))
            row.append(v if isinstance(v, dict) and "$json" in v else enc(v))
        rows.append(row)
    return {"cols": cols, "rows": rows, "where_empty": draw(st.sampled_from([False, False, False, True]))}


def _lit(t, v):
    from vf.util import sql_str

    if v is None:
        return "NULL"
    if t == "VARCHAR":
        return sql_str(v)
    if t == "VARIANT":
        return f"PARSE_JSON({sql_str(json.dumps(v))})"
    return TYPES[t][1](v)


def _cmp_rows(ctx: Ctx, sig_prefix: str, cols, http_rows, fake_rows, where: str) -> None:
    if len(http_rows) != len(fake_rows):
        ctx.fail(f"{sig_prefix}|row-count", f"{where}: http {len(http_rows)} rows, in-process {len(fake_rows)}")
        return
    for i, (h, f) in enumerate(zip(http_rows, fake_rows)):
        if len(h) != len(f):
            ctx.fail(f"{sig_prefix}|row-width", f"{where}: row {i} http {h!r} in-process {f!r}")
            return
        for j, (a, b) in enumerate(zip(h, f)):
            t = cols[j] if cols else "?"
            ok = same_value(a, b)
            if not ok and isinstance(a, str) and isinstance(b, str) and t in ("VARIANT", "?"):
                try:
                    ok = json.loads(a) == json.loads(b)
                except ValueError:
                    ok = False
            if not ok and isinstance(a, dt.datetime) and isinstance(b, dt.datetime) and a.tzinfo is not None and b.tzinfo is not None:
                ok = a == b and a.utcoffset() == b.utcoffset()
            if not ok and isinstance(a, bytearray) and isinstance(b, (bytes, bytearray)):
                ok = bytes(a) == bytes(b)
            if not ok and isinstance(a, int) and not isinstance(a, bool) and isinstance(b, Decimal) and b == a:
                # listed C01 finding seen from this side: scale-0 NUMBERs are int over HTTP (as the connector documents) but Decimal in process
                ctx.fail("C17|number-scale0|int-over-http-but-Decimal-in-process", f"{where}: row {i} col {j}: http {a!r} vs in-process {b!r}")
                continue
            if not ok:
                kind = "null-became-value" if b is None and a is not None else ("value-became-null" if a is None else ("type" if type(a) is not type(b) else "value"))
                ctx.fail(f"{sig_prefix}|{kind}|{t}", f"{where}: row {i} col {j} ({t}): http {a!r} vs in-process {b!r}")
                return


def _desc(cur):
    return [(d.name, d.type_code, d.precision, d.scale, d.internal_size) for d in cur.description]


def run_values(case, ctx: Ctx) -> None:
    cols = case["cols"]
    if not cols or any(c not in TYPES for c in cols):
        raise InvalidCase()
    rows = []
    for r in case["rows"]:
        if len(r) != len(cols):
            raise InvalidCase()
        rows.append([v["$json"] if isinstance(v, dict) and "$json" in v else dec(v) for v in r])
    ddl = "CREATE OR REPLACE TABLE VT (RID INT, " + ", ".join(f"C{j} {t}" for j, t in enumerate(cols)) + ")"
    inserts = []
    for k in range(0, len(rows), 20):
        chunk = rows[k : k + 20]
        inserts.append("INSERT INTO VT " + " UNION ALL ".join("SELECT " + ", ".join([str(k + i)] + [_lit(t, v) for t, v in zip(cols, r)]) for i, r in enumerate(chunk)))
    query = "SELECT " + ", ".join(f"C{j}" for j in range(len(cols))) + " FROM VT" + (" WHERE RID < 0" if case.get("where_empty") else "") + " ORDER BY RID"
    fs = new_instance()
    hconn = None
    try:
        hconn = connect_http()
        hcur = hconn.cursor()
        fcur = fs.connect("db1", "s1").cursor()
        for s_ in [ddl, *inserts]:
            fo = run(fcur, s_)
            try:
                hcur.execute(s_)
            except Exception as e:
                if fo.ok:
                    ctx.fail(f"C17|values|setup-fails-only-over-http|{etype_name(e)}", f"{s_[:200]}: {e}")
                return
            if not fo.ok:
                return  # the in-process fake rejects it too: not this property's subject
        fo = run(fcur, query)
        try:
            hcur.execute(query)
            hrows = hcur.fetchall()
        except Exception as e:
            ctx.fail(f"C17|values|query-fails-only-over-http|{etype_name(e)}|{'+'.join(sorted(set(cols)))}", f"{query}: {e}")
            return
        if not fo.ok:
            ctx.fail("C17|values|query-fails-only-in-process", f"{fo}")
            return
        nulls = any(v is None for r in rows for v in r)
        for t in set(cols):
            ctx.cls(f"type:{t}")
        if nulls:
            ctx.cls("has-null")
        if not rows or case.get("where_empty"):
            ctx.cls("empty-result")
        ctx.nontrivial = nulls or not rows or bool(case.get("where_empty")) or any(t in ("TIME", "TIMESTAMP_TZ", "TIMESTAMP_NTZ", "NUMBER(10,2)", "NUMBER(38,10)") for t in cols)
        where = f"{query} over {len(rows)} rows of ({', '.join(cols)})"
        _cmp_rows(ctx, "C17|values", cols, hrows, fo.rows, where)
        hd, fd = _desc(hcur), _desc(fcur)
        if hd != fd:
            ctx.fail("C17|values|description-differs", f"{where}: http {hd} vs in-process {fd}")
        if hcur.rowcount != fcur.rowcount:
            ctx.fail("C17|rowcount-differs|select", f"{where}: http {hcur.rowcount} vs in-process {fcur.rowcount}")
    finally:
        if hconn is not None:
            try:
                hconn.close()
            except Exception:
                pass
        close_instance(fs)


# ------------------------------------------------------------------------------------------ statement kinds and errors

FAILING = [f for f in c07.FAILING if not f[2].startswith("<")]
# result shapes that matter on the wire only (a DictCursor cannot hold them, so they are not in C06's catalogue)
WIRE_STATEMENTS = list(c06.STATEMENTS) + [
    ("duplicate-names-same-type", "SELECT K AS X, K + 10 AS X, K + 20 AS X FROM SRC ORDER BY K"),
    ("duplicate-names-different-types", "SELECT K AS X, V AS X, C_DATE AS X FROM SRC, TT WHERE TT.C_INT = 1 ORDER BY K"),
    ("duplicate-names-join", "SELECT s.K, t.K, s.V, t.V FROM SRC s JOIN TGT t ON s.K = t.K"),
    ("empty-result-all-types", "SELECT * FROM TT WHERE C_INT > 1000"),
]


@st.composite
def _stmt_case(draw, tier):
    group = draw(st.sampled_from(["stmt", "stmt", "stmt", "failing"]))
    n = len(WIRE_STATEMENTS) if group == "stmt" else len(FAILING)
    return {"group": group, "idx": draw(st.integers(0, n - 1))}


def run_statement(case, ctx: Ctx) -> None:
    group, idx = case["group"], case.get("idx")
    table = WIRE_STATEMENTS if group == "stmt" else FAILING if group == "failing" else None
    if table is not None and "kind" in case:
        idx = next((i for i, row in enumerate(table) if row[0] == case["kind"]), None)
    if table is None or not isinstance(idx, int) or not 0 <= idx < len(table):
        raise InvalidCase()
    if group == "stmt":
        kind, sql = table[idx]
        setup = c06.SETUP
    else:
        cause, pos, sql, _ = table[idx]
        kind = f"{cause}/{pos}"
        setup = ["CREATE TABLE T (K INT, V VARCHAR(20))", "INSERT INTO T VALUES (1, 'one'), (2, 'two'), (3, NULL)", "CREATE VIEW V AS SELECT K FROM T", "CREATE SCHEMA S2", "CREATE TABLE T2 (K INT)", "INSERT INTO T2 VALUES (1), (9)"]
    if kind == "nop-regex":
        raise InvalidCase()  # needs an instance option the server does not expose
    fs = new_instance()
    hconn = None
    try:
        hconn = connect_http()
        hcur = hconn.cursor()
        fcur = fs.connect("db1", "s1").cursor()
        for s_ in setup:
            fcur.execute(s_)
            try:
                hcur.execute(s_)
            except Exception as e:
                # the login asked for an isolated instance, so the setup cannot collide with anything: the server differs
                ctx.fail(f"C17|statement|setup-fails-only-over-http|{etype_name(e)}", f"{s_[:200]}: {str(e)[:300]}")
                return
        ctx.cls(f"stmt:{kind}")
        ctx.nontrivial = not sql.lstrip().upper().startswith("SELECT") or group == "failing"
        fo = run(fcur, sql)
        herr = None
        hrows = None
        try:
            hcur.execute(sql)
            hrows = hcur.fetchall()
        except Exception as e:
            herr = e
        if fo.ok and herr is not None:
            ctx.fail(f"C17|statement|fails-only-over-http|{kind}|{etype_name(herr)}", f"{sql}: {getattr(herr, 'errno', None)} {str(herr)[:300]}")
            return
        if not fo.ok:
            if herr is None:
                ctx.fail(f"C17|statement|fails-only-in-process|{kind}", f"{sql}: in-process {fo}; http returned {hrows!r}")
                return
            a = (etype_name(herr), getattr(herr, "errno", None), getattr(herr, "sqlstate", None))
            b = (fo.etype, fo.errno, fo.sqlstate)
            if a != b:
                ctx.fail(f"C17|error-differs|{'errno/sqlstate' if a[0] == b[0] else 'type'}|{kind}", f"{sql}: http {a} {str(herr)[:200]} vs in-process {b} {str(fo.msg)[:200]}")
            elif str(getattr(herr, "msg", herr)) != str(getattr(fo.exc, "msg", fo.msg)):
                ctx.fail(f"C17|error-differs|message|{group}", f"{sql}: http {getattr(herr, 'msg', herr)!r} vs in-process {getattr(fo.exc, 'msg', fo.msg)!r}")
            return
        _cmp_rows(ctx, f"C17|statement|{kind}", None, hrows, fo.rows, sql)
        try:
            hd = _desc(hcur)
        except Exception as e:
            hd = f"raised {etype_name(e)}"
        try:
            fd = _desc(fcur)
        except Exception as e:
            fd = f"raised {etype_name(e)}"
        if hd != fd:
            ctx.fail(f"C17|statement|description-differs|{kind}", f"{sql}: http {hd} vs in-process {fd}")
        if hcur.rowcount != fcur.rowcount:
            dml = sql.lstrip().upper().split()[0] in ("INSERT", "UPDATE", "DELETE", "MERGE", "TRUNCATE")
            ctx.fail(f"C17|rowcount-differs|{'dml' if dml else 'other'}", f"{sql}: http {hcur.rowcount} vs in-process {fcur.rowcount}")
    finally:
        if hconn is not None:
            try:
                hconn.close()
            except Exception:
                pass
        close_instance(fs)


# ------------------------------------------------------------------------------------------ sessions and tokens

# shapes a table that several sessions look at is re-created with: (column list, rows as SQL, rows as Python, description triples)
import datetime as _dt  # noqa: E402
from decimal import Decimal as _D  # noqa: E402

SHAPES = [
    ("AMOUNT INT", "(150), (275)", [(150,), (275,)], [("AMOUNT", 0, 0)]),
    ("PRICE NUMBER(10,2)", "(1.50), (2.75)", [(_D("1.50"),), (_D("2.75"),)], [("PRICE", 0, 2)]),
    ("NAME VARCHAR, N INT", "('a', 1), ('b', 2)", [("a", 1), ("b", 2)], [("NAME", 2, None), ("N", 0, 0)]),
    ("AT TIMESTAMP_NTZ", "('2020-01-02 03:04:05'), ('1969-12-31 23:59:59.5')", [(_dt.datetime(1969, 12, 31, 23, 59, 59, 500000),), (_dt.datetime(2020, 1, 2, 3, 4, 5),)], [("AT", 8, None)]),
]

_sess_op = st.one_of(
    st.tuples(st.just("login"), st.sampled_from(["shared", "isolated"]), st.sampled_from(["db1", "db2"]), st.sampled_from(["s1", "s2"])).map(list),
    st.tuples(st.just("create"), st.integers(0, 3), st.sampled_from(["TA", "TB"])).map(list),
    st.tuples(st.just("list"), st.integers(0, 3)).map(list),
    st.tuples(st.just("use"), st.integers(0, 3), st.sampled_from(["s1", "s2"])).map(list),
    st.tuples(st.just("context"), st.integers(0, 3)).map(list),
    st.tuples(st.just("set"), st.integers(0, 3), st.integers(0, 9)).map(list),
    st.tuples(st.just("getvar"), st.integers(0, 3)).map(list),
    st.tuples(st.just("replace"), st.integers(0, 3), st.integers(0, 3)).map(list),
    st.tuples(st.just("replace"), st.integers(0, 3), st.integers(0, 3)).map(list),
    st.tuples(st.just("peek"), st.integers(0, 3)).map(list),
    st.tuples(st.just("peek"), st.integers(0, 3)).map(list),
    st.tuples(st.just("peek"), st.integers(0, 3)).map(list),
    st.tuples(st.just("bad-request"), st.sampled_from(["no-header", "unknown-token", "short-token", "long-token", "empty-token"]), st.integers(0, 3)).map(list),
)


@st.composite
def _session_case(draw, tier):
    ops = [["login", "shared", "db1", "s1"]] + draw(st.lists(_sess_op, min_size=2, max_size=12))
    if draw(st.integers(0, 2)):
        # one session repeats the very same query text, with nothing of its own in between, while another one re-creates the table
        ops.insert(1, ["login", draw(st.sampled_from(["shared", "shared", "isolated"])), "db1", draw(st.sampled_from(["s1", "s2"]))])
        a, b = draw(st.integers(0, 3)), draw(st.integers(0, 3))
        k1, k2 = draw(st.integers(0, 3)), draw(st.integers(0, 3))
        ops += [["replace", b, k1], ["peek", a], ["replace", b, k2], ["peek", a]]
        if draw(st.booleans()):
            ops += [["replace", b, draw(st.integers(0, 3))], ["peek", a], ["peek", b]]
    return {"ops": ops}


def run_sessions(case, ctx: Ctx) -> None:
    import requests

    import fakesnow.server as srv

    port = server_port()
    conns: list = []
    model: list[dict] = []  # per session: kind, db, schema, var
    # every case uses its own pair of databases so that earlier cases' shared objects are out of view
    tag = f"{abs(hash(json.dumps(case, sort_keys=True))) % 10**8}_{int(time.time() * 1000) % 10**6}"
    dbname = {"db1": f"DBA{tag}", "db2": f"DBB{tag}"}
    shared_tables: set = set()
    shape_shared: list = [None]
    try:
        for op in case["ops"]:
            kind = op[0]
            if kind == "login":
                if len(conns) >= 4:
                    continue
                c = connect_http(dbname[op[2]], op[3], ":isolated:" if op[1] == "isolated" else None)
                conns.append(c)
                model.append({"kind": op[1], "db": dbname[op[2]].upper(), "schema": op[3].upper(), "var": None, "tables": set()})
                ctx.cls(f"login:{op[1]}")
                continue
            if kind == "bad-request":
                how, i = op[1], op[2]
                before = dict(srv.sessions)
                tok = conns[i % len(conns)].rest.token if conns else "x"
                hdr = {
                    "no-header": {},
                    "unknown-token": {"Authorization": f'Snowflake Token="{"A" * len(tok)}"'},
                    "short-token": {"Authorization": f'Snowflake Token="{tok[:-3]}"'},
                    "long-token": {"Authorization": f'Snowflake Token="{tok}xyz"'},
                    "empty-token": {"Authorization": 'Snowflake Token=""'},
                }[how]
                body = gzip.compress(json.dumps({"sqlText": "CREATE TABLE SHOULD_NOT_EXIST (I INT)"}).encode())
                r = requests.post(f"http://localhost:{port}/queries/v1/query-request", data=body, headers={**hdr, "Content-Encoding": "gzip", "Content-Type": "application/json"}, timeout=10)
                ctx.cls(f"refused:{how}")
                ctx.nontrivial = True
                if r.status_code != 401:
                    ctx.fail(f"C17|sessions|bad-token-not-refused|{how}", f"status {r.status_code} body {r.text[:200]}")
                if dict(srv.sessions) != before:
                    ctx.fail(f"C17|sessions|refused-request-touched-sessions|{how}", "")
                continue
            if not conns:
                continue
            i = op[1] % len(conns)
            cur, m = conns[i].cursor(), model[i]
            if kind == "create":
                name = f"{op[2]}_{i}"
                o = run(cur, f"CREATE TABLE IF NOT EXISTS {m['db']}.{m['schema']}.{name} (I INT)")
                if not o.ok:
                    ctx.fail(f"C17|sessions|create-fails|{o.etype}", f"{o}")
                    continue
                (shared_tables if m["kind"] == "shared" else m["tables"]).add((m["db"], m["schema"], name))
            elif kind == "list":
                o = run(cur, "SHOW TERSE TABLES IN ACCOUNT")
                if not o.ok:
                    ctx.fail(f"C17|sessions|show-fails|{o.etype}", f"{o}")
                    continue
                mine = {(r[3], r[4], r[1]) for r in o.rows if r[3] in (dbname["db1"].upper(), dbname["db2"].upper())}
                want = shared_tables if m["kind"] == "shared" else m["tables"]
                if mine != want:
                    ctx.fail(f"C17|sessions|data-sharing|{m['kind']}-session", f"session {i} ({m['kind']}) sees {sorted(mine)}, model {sorted(want)}")
                ctx.cls(f"list:{m['kind']}")
            elif kind in ("replace", "peek"):
                # one table that every data-sharing session looks at with the very same statement text while others re-create it with another shape
                if m["kind"] == "shared":
                    holder, fq = shape_shared, f"{dbname['db1']}.S1.LOOKED_AT"
                else:
                    holder = m.setdefault("shape", [None])
                    # (an isolated session's table stays where it was first made, whatever schema the session has moved to since)
                    fq = m.setdefault("shape_fq", f"{m['db']}.{m['schema']}.LOOKED_AT")
                if kind == "replace":
                    if not isinstance(op[2], int) or not 0 <= op[2] < len(SHAPES):
                        raise InvalidCase()
                    cols, vals, _, _ = SHAPES[op[2]]
                    run(cur, f"CREATE SCHEMA IF NOT EXISTS {fq.rsplit('.', 1)[0]}")
                    for sql in (f"CREATE OR REPLACE TABLE {fq} ({cols})", f"INSERT INTO {fq} VALUES {vals}"):
                        o = run(cur, sql)
                        if not o.ok:
                            ctx.fail(f"C17|sessions|replace-fails|{o.etype}", f"{sql}: {o}")
                            return
                    if holder[0] is not None and holder[0] != op[2]:
                        ctx.cls("looked-at-table-changed-shape")
                    holder[0] = op[2]
                    d_, s_, _ = fq.upper().split(".")
                    (shared_tables if m["kind"] == "shared" else m["tables"]).add((d_, s_, "LOOKED_AT"))
                elif holder[0] is not None:
                    _, _, want_rows, want_desc = SHAPES[holder[0]]
                    o = run(cur, f"SELECT * FROM {fq} ORDER BY 1")
                    if not o.ok:
                        ctx.fail(f"C17|sessions|peek-fails|{o.etype}", f"{o}")
                        continue
                    got_desc = [(d.name, d.type_code, d.scale if d.type_code == 0 else None) for d in cur.description]
                    if got_desc != want_desc:
                        ctx.fail(f"C17|sessions|stale-or-wrong-description|{m['kind']}-session", f"session {i}: description {got_desc}, the table now is {SHAPES[holder[0]][0]!r} ({want_desc})")
                    elif [tuple(r) for r in o.rows] != want_rows or [type(x) for r in o.rows for x in r] != [type(x) for r in want_rows for x in r]:
                        ctx.fail(f"C17|sessions|stale-or-wrong-rows|{m['kind']}-session", f"session {i}: rows {o.rows!r}, want {want_rows!r}")
                    seen = m.setdefault("peeked", set())
                    if seen and holder[0] not in seen:
                        ctx.cls("same-text-after-shape-change")
                        ctx.nontrivial = True
                    seen.add(holder[0])
            elif kind == "use":
                other = op[2].upper()
                run(cur, f"CREATE SCHEMA IF NOT EXISTS {m['db']}.{other}")
                o = run(cur, f"USE SCHEMA {other}")
                if o.ok:
                    m["schema"] = other
                else:
                    ctx.fail(f"C17|sessions|use-fails|{o.etype}", f"{o}")
            elif kind == "context":
                o = run(cur, "SELECT CURRENT_DATABASE(), CURRENT_SCHEMA()")
                if not o.ok or o.rows != [(m["db"], m["schema"])]:
                    ctx.fail("C17|sessions|context-not-per-session", f"session {i}: {o}, model {(m['db'], m['schema'])}")
                if len({(x["db"], x["schema"]) for x in model}) > 1:
                    ctx.nontrivial = True
            elif kind == "set":
                o = run(cur, f"SET SV = {int(op[2])}")
                if o.ok:
                    m["var"] = int(op[2])
            elif kind == "getvar":
                o = run(cur, "SELECT $SV")
                if m["var"] is None:
                    if o.ok:
                        ctx.fail("C17|sessions|variable-leaked-between-sessions", f"session {i} never SET SV but SELECT $SV = {o.rows}")
                elif not o.ok or o.rows != [(m["var"],)]:
                    ctx.fail("C17|sessions|variable-not-per-session", f"session {i}: {o}, model {m['var']}")
            else:
                raise InvalidCase()
    finally:
        for c in conns:
            try:
                c.close()
            except Exception:
                pass


PROP = Prop(
    id="C17",
    facets=[
        Facet(
            name="values",
            strategy=_value_case,
            run=run_values,
            rule=(
                "Hypothesis draws tables of 1-8/12 columns from 12 column types (BOOLEAN, INT, NUMBER(10,2)/(38,10)/(38,0), FLOAT, VARCHAR, DATE, "
                "TIME, TIMESTAMP_NTZ, TIMESTAMP_TZ, VARIANT) x 0-25/120 rows of edge-biased values (NULL in every column type, pre-1970 and "
                "sub-second timestamps, 38-digit decimals, empty results). The same DDL/INSERT/SELECT runs through the real Snowflake "
                "connector against fakesnow.server.app under uvicorn on loopback (isolated session) and through FakeSnow().connect(); rows "
                "(value and Python type), description (name, type_code, precision, scale, internal_size) and rowcount must be equal. "
                "Non-trivial: a NULL, an empty result, or a TIME/TIMESTAMP/DECIMAL column."
            ),
            quick=60,
            thorough=500,
            budget_quick=50,
        ),
        Facet(
            name="statements",
            strategy=_stmt_case,
            run=run_statement,
            rule=f"One of the {len(WIRE_STATEMENTS)} statements of C06's catalogue (every statement kind) plus wire-only shapes (repeated column names, empty result over every type) or one of {len(FAILING)} failing statements of C07's catalogue, on the same setup over HTTP and in process: rows, description, rowcount, and for failures exception type, errno, sqlstate, message must be equal.",
            quick=45,
            thorough=400,
            budget_quick=50,
        ),
        Facet(
            name="sessions",
            strategy=_session_case,
            run=run_sessions,
            rule="Histories of up to 4 logins (shared or ':isolated:', generated database/schema) and per-session CREATE / SHOW TABLES / USE SCHEMA / CURRENT_* / SET / $var, plus raw HTTP query requests with no Authorization header, an unknown token, a token of another length or an empty token; oracle: per-session context and variables, shared logins share data and isolated ones do not, refused requests answer 401 and leave fakesnow.server.sessions untouched.",
            quick=25,
            thorough=200,
            quick_shards=4,
            budget_quick=50,
        ),
    ],
    assumptions=[
        "the differential runs the real snowflake-connector-python over loopback HTTP against fakesnow.server.app under uvicorn in the check's own process",
        "JSON text of VARIANT values is compared parsed (the connector pretty-prints it); time zones are compared as instants with equal UTC offset",
        "path-backed logins (FAKESNOW_DB_PATH=<dir>) are not exercised by the session facet",
    ],
)
