"""C01 — stored values read back unchanged, in the connector's Python types."""

from __future__ import annotations

import datetime as dt
import json
import math
from decimal import Decimal

import snowflake.connector
from hypothesis import strategies as st

import fakesnow
from vf.engine import Ctx, Facet, InvalidCase, Prop
from vf.gen import values as gv
from vf.util import close_instance, dec, enc, etype_name, new_instance, run, same_value, snapshot, sql_str

UTC = dt.timezone.utc

# family -> (type spellings, value strategy factory(spelling) )
FAMILIES = {
    "bool": ["BOOLEAN"],
    "int": ["INT", "INTEGER", "BIGINT", "SMALLINT", "TINYINT", "BYTEINT"],
    "number_p0": ["NUMBER", "NUMBER(38,0)", "NUMBER(10,0)", "DECIMAL(18,0)", "NUMERIC(5,0)"],
    "number_ps": ["NUMBER(10,2)", "NUMBER(38,10)", "DECIMAL(5,3)", "NUMERIC(20,10)", "NUMBER(38,37)", "NUMBER(3,3)"],
    "float": ["FLOAT", "FLOAT4", "FLOAT8", "DOUBLE", "DOUBLE PRECISION", "REAL"],
    "text": ["VARCHAR", "VARCHAR(40)", "STRING", "TEXT"],
    "date": ["DATE"],
    "time": ["TIME"],
    "ts_ntz": ["TIMESTAMP_NTZ", "TIMESTAMP", "DATETIME"],
    "ts_tz": ["TIMESTAMP_TZ"],
    "binary": ["BINARY"],
    "variant": ["VARIANT", "OBJECT", "ARRAY"],
}
PATHS = ["literal", "pyformat", "pyformat_dict", "qmark", "insert_select", "ctas", "clone", "write_pandas"]


def _ps(spelling: str) -> tuple[int, int]:
    if "(" not in spelling:
        return 38, 0
    p, s = spelling[spelling.index("(") + 1 : -1].split(",")
    return int(p), int(s)


BOUND_PATHS = ("pyformat", "pyformat_dict", "qmark", "write_pandas")


def _values(fam: str, spelling: str, dollar: bool = False):
    if fam == "text" and dollar:
        # `$word` in a value that is bound (not written into the statement text) is data like anything else
        return st.one_of(gv.text(8, dollar=True), st.tuples(gv.text(3), st.sampled_from(["$x", "$price", "$1", "$V1", "$_a", "$$", "$"]), gv.text(3)).map("".join))
    if fam == "bool":
        return st.booleans()
    if fam == "int":
        return gv.ints
    if fam == "number_p0":
        p, _ = _ps(spelling)
        return gv.decimals(p, 0).map(int)
    if fam == "number_ps":
        return gv.decimals(*_ps(spelling))
    if fam == "float":
        return gv.floats
    if fam == "text":
        return gv.text(8)
    if fam == "date":
        return gv.dates
    if fam == "time":
        return gv.times
    if fam == "ts_ntz":
        return gv.timestamps
    if fam == "ts_tz":
        return gv.timestamps_tz
    if fam == "binary":
        return gv.binaries
    if fam == "variant":
        if spelling == "OBJECT":
            return st.dictionaries(st.sampled_from(gv.JSON_KEYS), gv.json_docs(5), max_size=3).map(lambda d: {"$json": d})
        if spelling == "ARRAY":
            return st.lists(gv.json_docs(5), max_size=4).map(lambda d: {"$json": d})
        return gv.json_docs(8).map(lambda d: {"$json": d})
    raise KeyError(fam)


_PREC = st.one_of(st.sampled_from([1, 2, 9, 10, 18, 19, 20, 28, 29, 37, 38]), st.integers(1, 38))


@st.composite
def _spelling(draw, fam):
    """Type spelling: the fixed list, or for the NUMBER families any precision/scale and keyword."""
    if fam == "number_p0" and draw(st.booleans()):
        p = draw(_PREC)
        kw = draw(st.sampled_from(["NUMBER", "DECIMAL", "NUMERIC"]))
        return f"{kw}({p},0)"
    if fam == "number_ps" and draw(st.booleans()):
        p = draw(_PREC.filter(lambda x: x >= 2))
        sc = draw(st.one_of(st.sampled_from([1, p - 1, p]), st.integers(1, p)))
        kw = draw(st.sampled_from(["NUMBER", "DECIMAL", "NUMERIC"]))
        return f"{kw}({p},{sc})"
    return draw(st.sampled_from(FAMILIES[fam]))


@st.composite
def _case(draw, tier):
    path = draw(st.sampled_from(PATHS))
    ncols = draw(st.integers(1, 4 if tier == "quick" else 8))
    cols = []
    for _ in range(ncols):
        fam = draw(st.sampled_from(sorted(FAMILIES)))
        cols.append([fam, draw(_spelling(fam))])
    nrows = draw(st.integers(1, 6 if tier == "quick" else 25))
    dollar = path in BOUND_PATHS and draw(st.booleans())
    if dollar and not any(f == "text" for f, _ in cols):
        cols[0] = ["text", draw(_spelling("text"))]
    rows = []
    for _ in range(nrows):
        row = []
        for fam, sp in cols:
            v = draw(st.one_of(st.none(), _values(fam, sp, dollar), _values(fam, sp, dollar), _values(fam, sp, dollar)))
            row.append(v if (isinstance(v, dict) and "$json" in v) else enc(v))
        rows.append(row)
    return {
        "path": path,
        "cols": cols,
        "rows": rows,
        "float_plain": draw(st.booleans()),
        "tz_offset": draw(st.sampled_from([0, 0, 330, -480, 60])),
        "wp_opts": draw(st.sampled_from(["plain", "db_schema", "auto_create"])),
        "wp_object_ints": draw(st.sampled_from([False, False, False, True])),
        "wp_chunk": draw(st.sampled_from([None, None, 1, 2, 3, 4])),
    }


# ------------------------------------------------------------------ literal rendering (independent of the connector)


def _float_lit(x: float, plain: bool) -> str:
    if math.isnan(x):
        return "'nan'::FLOAT"
    if math.isinf(x):
        return "'inf'::FLOAT" if x > 0 else "'-inf'::FLOAT"
    if plain and 1e-5 < abs(x) < 1e15:
        return repr(x)
    return format(x, ".17e")


def _lit(fam: str, v, case) -> str:
    if v is None:
        return "NULL"
    if fam == "bool":
        return "TRUE" if v else "FALSE"
    if fam in ("int", "number_p0"):
        return str(v)
    if fam == "number_ps":
        return format(v, "f")
    if fam == "float":
        return _float_lit(v, case.get("float_plain", False))
    if fam == "text":
        return sql_str(v)
    if fam == "date":
        return f"'{v.isoformat()}'"
    if fam == "time":
        return f"'{v.isoformat()}'"
    if fam == "ts_ntz":
        return f"'{v.isoformat(sep=' ')}'"
    if fam == "ts_tz":
        off = dt.timedelta(minutes=case.get("tz_offset", 0))
        local = (v + off).replace(tzinfo=None)
        if not (dt.datetime(2, 1, 1) < local < dt.datetime(9998, 1, 1)):
            local, off = v.replace(tzinfo=None), dt.timedelta(0)
        m = int(off.total_seconds() // 60)
        sign = "+" if m >= 0 else "-"
        return f"'{local.isoformat(sep=' ')}{sign}{abs(m) // 60:02d}:{abs(m) % 60:02d}'"
    if fam == "binary":
        return f"'{v.hex()}'::BINARY"
    if fam == "variant":
        return f"PARSE_JSON({sql_str(json.dumps(v))})"
    raise KeyError(fam)


def _want(fam: str, v):
    """Python value the connector hands back for a column of this family."""
    if v is None:
        return None
    if fam == "number_p0":
        return int(v)
    if fam == "ts_tz":
        return v.astimezone(UTC)
    return v


def _same(fam: str, got, want) -> bool:
    if want is None or got is None:
        return want is None and got is None
    if fam == "variant":
        if not isinstance(got, str):
            return False
        try:
            return json.loads(got) == want and type(json.loads(got)) is type(want)
        except ValueError:
            return False
    if fam == "ts_tz":
        return isinstance(got, dt.datetime) and got.tzinfo is not None and got.utcoffset() == dt.timedelta(0) and got == want
    return same_value(got, want)


def _mode(fam: str, got, want) -> str:
    if got is None or want is None:
        return "null-mismatch"
    if fam == "variant":
        return "wrong-type" if not isinstance(got, str) else "wrong-value"
    if type(got) is not type(want) and not (fam == "ts_tz" and isinstance(got, dt.datetime)):
        return f"wrong-type|got={type(got).__name__}"
    if fam == "ts_tz" and (got.tzinfo is None or got.utcoffset() != dt.timedelta(0)):
        return "wrong-type|not-utc-aware"
    if fam == "float" and math.isfinite(got) and math.isfinite(want) and want != 0:
        import struct

        a, b = (struct.unpack(">q", struct.pack(">d", x))[0] for x in (got, want))
        if abs(a - b) <= 2:
            return "wrong-value-by-ulp"
    return "wrong-value"


def _is_edge(fam: str, v) -> bool:
    if v is None:
        return False
    if fam in ("int", "number_p0"):
        return abs(v) >= 2**31 - 1 or v in (0, -1)
    if fam == "number_ps":
        return len(v.as_tuple().digits) >= 9
    if fam == "float":
        return v != v or abs(v) > 1e300 or (v != 0 and abs(v) < 1e-300) or len(repr(v)) > 16
    if fam == "text":
        return v == "" or any(ch in v for ch in "'\\\n%;") or any(ord(ch) > 0xFFFF for ch in v)
    if fam in ("date", "ts_ntz", "ts_tz"):
        return v.year < 1971 or v.year > 9000 or getattr(v, "microsecond", 0) % 1000 != 0
    if fam == "time":
        return v.microsecond != 0 or v == dt.time(0, 0)
    if fam == "binary":
        return v == b"" or b"\x00" in v
    if fam == "variant":
        return v in ({}, []) or isinstance(v, (dict, list)) and any(isinstance(x, (dict, list)) for x in (v.values() if isinstance(v, dict) else v))
    return False


def _pandas_supported(fam: str) -> bool:
    return fam in ("bool", "int", "float", "text", "ts_ntz", "variant", "date")


def run_roundtrip(case, ctx: Ctx) -> None:
    path = case["path"]
    cols = case["cols"]
    if path not in PATHS or not cols or any(f not in FAMILIES for f, _ in cols):
        raise InvalidCase()
    fams = [f for f, _ in cols]
    import re as _re

    for f, sp in cols:
        if sp not in FAMILIES[f] and not (f in ("number_p0", "number_ps") and _re.fullmatch(r"(NUMBER|DECIMAL|NUMERIC)\((\d+),(\d+)\)", sp or "")):
            raise InvalidCase()
        if f in ("number_p0", "number_ps") and "(" in sp:
            p_, s_ = _ps(sp)
            if not (1 <= p_ <= 38 and 0 <= s_ <= p_ and (s_ == 0) == (f == "number_p0")):
                raise InvalidCase()
    rows = []
    for r in case["rows"]:
        if len(r) != len(cols):
            raise InvalidCase()
        rows.append([v["$json"] if isinstance(v, dict) and "$json" in v else dec(v) for v in r])
    if not rows:
        raise InvalidCase()
    for r in rows:  # values must be exactly representable in the declared type (shrunk/replayed cases are re-validated)
        for (f, sp), v in zip(cols, r):
            if v is None:
                continue
            ok = {
                "bool": lambda: isinstance(v, bool),
                "int": lambda: isinstance(v, int) and not isinstance(v, bool) and -(2**63) <= v < 2**63,
                "number_p0": lambda: isinstance(v, int) and not isinstance(v, bool) and abs(v) < 10 ** _ps(sp)[0],
                "number_ps": lambda: isinstance(v, Decimal) and v == v.quantize(Decimal(1).scaleb(-_ps(sp)[1]), context=__import__("decimal").Context(prec=80)) and v.copy_abs() < Decimal(10) ** (_ps(sp)[0] - _ps(sp)[1]),
                "float": lambda: isinstance(v, float),
                "text": lambda: isinstance(v, str) and len(v) <= 40 and ("$" not in v or path in BOUND_PATHS) and "\x00" not in v,
                "date": lambda: type(v) is dt.date,
                "time": lambda: isinstance(v, dt.time),
                "ts_ntz": lambda: isinstance(v, dt.datetime) and v.tzinfo is None,
                "ts_tz": lambda: isinstance(v, dt.datetime) and v.tzinfo is not None,
                "binary": lambda: isinstance(v, bytes),
                "variant": lambda: True,
            }[f]()
            if not ok:
                raise InvalidCase()
    if path == "write_pandas" and not all(_pandas_supported(f) for f in fams):
        # write_pandas carries only the pandas-native column kinds (DESIGN §4 C01); other kinds are re-drawn as text
        raise_kinds = [f for f in fams if not _pandas_supported(f)]
        ctx.excluded += 1
        ctx.cls("write_pandas:unsupported-kind-skipped:" + raise_kinds[0])
        return
    old_style = snowflake.connector.paramstyle
    if path == "qmark":
        snowflake.connector.paramstyle = "qmark"
    fs = new_instance()
    try:
        conn = fs.connect("db1", "s1")
        snowflake.connector.paramstyle = old_style
        cur = conn.cursor()
        coldefs = ", ".join(f"c{j} {sp}" for j, (_, sp) in enumerate(cols))
        cur.execute("CREATE TABLE BYSTANDER (x INT, y VARCHAR)")
        cur.execute("INSERT INTO BYSTANDER VALUES (1, 'keep'), (2, NULL)")
        target = "T"
        stage = "T" if path in ("literal", "pyformat", "pyformat_dict", "qmark", "write_pandas") else "STAGE"
        if not (path == "write_pandas" and case.get("wp_opts") == "auto_create"):
            cur.execute(f"CREATE TABLE {stage} (rid INT, {coldefs})")
        sig = lambda mode, fam: f"C01|{path}|{mode}|{fam}"  # noqa: E731
        ctx.cls(*[f"{path}:{f}" for f in fams])

        def ingest(table, jcols, irows, c):
            """Write irows (lists aligned with jcols = column indices) into table through the case's path."""
            f_ = [fams[j] for j in jcols]
            if path in ("literal", "insert_select", "ctas", "clone"):
                if any(f == "variant" for f in f_):
                    # PARSE_JSON is not allowed in a VALUES clause in Snowflake: INSERT ... SELECT ... UNION ALL
                    sel = " UNION ALL ".join("SELECT " + ", ".join([str(i)] + [_lit(f, v, case) for f, v in zip(f_, r)]) for i, r in enumerate(irows))
                    o = run(c, f"INSERT INTO {table} {sel}")
                else:
                    o = run(c, f"INSERT INTO {table} VALUES " + ", ".join("(" + ", ".join([str(i)] + [_lit(f, v, case) for f, v in zip(f_, r)]) + ")" for i, r in enumerate(irows)))
                if o.ok and o.rows != [(len(irows),)]:
                    ctx.fail(sig("wrong-count", "insert-status"), f"{o.rows} for {len(irows)} rows")
                return o
            if path in ("pyformat", "pyformat_dict", "qmark"):
                o = None
                for i, r in enumerate(irows):
                    params = [i] + [json.dumps(v) if f == "variant" and v is not None else v for f, v in zip(f_, r)]
                    if path == "qmark":
                        ph = ["?"] + ["PARSE_JSON(?)" if f == "variant" else "?" for f in f_]
                        p = params
                    elif path == "pyformat":
                        ph = ["%s"] + ["PARSE_JSON(%s)" if f == "variant" else "%s" for f in f_]
                        p = tuple(params)
                    else:
                        ph = ["%(p0)s"] + [f"PARSE_JSON(%(p{j + 1})s)" if f == "variant" else f"%(p{j + 1})s" for j, f in enumerate(f_)]
                        p = {f"p{j}": v for j, v in enumerate(params)}
                    o = run(c, f"INSERT INTO {table} SELECT {', '.join(ph)}", p)
                    if not o.ok:
                        return o
                return o
            raise InvalidCase()

        names = ["rid"] + [f"c{j}" for j in range(len(cols))]
        if path != "write_pandas":
            o = ingest(stage, list(range(len(cols))), rows, cur)
            if not o.ok:
                # attribute the failure: repeat the write one column at a time
                blamed = []
                for j in range(len(cols)):
                    cur.execute(f"CREATE OR REPLACE TABLE DIAG (rid INT, c{j} {cols[j][1]})")
                    oj = ingest("DIAG", [j], [[r[j]] for r in rows], cur)
                    if not oj.ok:
                        blamed.append(j)
                        fam_j = fams[j]
                        if fam_j == "number_ps" and path in ("literal", "insert_select", "ctas", "clone") and _ps(cols[j][1])[0] == _ps(cols[j][1])[1]:
                            fam_j = "number_ps:scale=precision"  # every digit behind the point: its own root cause (the engine counts the leading 0)
                        ctx.fail(sig(f"raises|{oj.etype}", fam_j), f"{cols[j][1]} values {[r[j] for r in rows]!r}: {oj}")
                if not blamed:
                    ctx.fail(sig(f"raises|{o.etype}", "only-in-combination:" + "+".join(sorted(set(fams)))), f"{o}")
                return
        else:
            import pandas as pd

            data = {"RID": list(range(len(rows)))}
            for j, f in enumerate(fams):
                colv = [r[j] for r in rows]
                if f == "ts_ntz":
                    if any(v is not None and not (1678 <= v.year <= 2261) for v in colv):
                        ctx.excluded += 1
                        return
                    data[f"C{j}"] = pd.Series([pd.Timestamp(v) if v is not None else pd.NaT for v in colv], dtype="datetime64[ns]")
                elif f == "int" and all(v is not None for v in colv):
                    data[f"C{j}"] = pd.Series(colv, dtype="int64")
                elif f == "int" and not case.get("wp_object_ints"):
                    data[f"C{j}"] = pd.Series(colv, dtype="Int64")  # pandas' nullable integer dtype
                elif f == "variant" and any(v is not None and not isinstance(v, (dict, list)) for v in colv):
                    ctx.excluded += 1  # write_pandas carries semi-structured data as dict/list cells only
                    return
                elif f == "float" and all(v is not None for v in colv):
                    data[f"C{j}"] = pd.Series(colv, dtype="float64")
                else:
                    data[f"C{j}"] = pd.Series(colv, dtype="object")
            df = pd.DataFrame(data)
            kw = {}
            opts = case.get("wp_opts", "plain")
            if opts == "db_schema":
                kw = {"database": "DB1", "schema": "S1"}
            elif opts == "auto_create":
                if not all(f in ("int", "text") for f in fams) or any(v is None for r in rows for v in r):
                    cur.execute(f"CREATE TABLE {stage} (rid INT, {coldefs})")
                else:
                    kw = {"auto_create_table": True}
                    ctx.cls("write_pandas:auto_create")
            if case.get("wp_chunk") is not None:
                if not isinstance(case["wp_chunk"], int) or case["wp_chunk"] < 1:
                    raise InvalidCase()
                kw["chunk_size"] = case["wp_chunk"]
                ctx.cls("write_pandas:chunk_size" + (":smaller-than-frame" if case["wp_chunk"] < len(rows) else ""))
            try:
                res = fakesnow.fakes.write_pandas(conn, df, "T", **kw)
            except Exception as e:
                ctx.fail(sig(f"raises|{etype_name(e)}", _blame_row(fams, rows[0]) if len(set(fams)) > 1 else fams[0]), f"{e}")
                return
            if not (isinstance(res, tuple) and res[0] is True and res[2] == len(rows)):
                ctx.fail(sig("wrong-count", "write_pandas-return"), f"{res!r}")

        def read(table):
            return run(conn.cursor(), f"SELECT {', '.join(names)} FROM {table} ORDER BY rid")

        src_before = read(stage) if stage != target else None
        if path == "insert_select":
            cur.execute(f"CREATE TABLE T (rid INT, {coldefs})")
            o = run(cur, f"INSERT INTO T SELECT * FROM STAGE")
        elif path == "ctas":
            o = run(cur, "CREATE TABLE T AS SELECT * FROM STAGE")
        elif path == "clone":
            o = run(cur, "CREATE TABLE T CLONE STAGE")
        else:
            o = None
        if o is not None and not o.ok:
            ctx.fail(sig(f"raises|{o.etype}", "copy-step"), f"{o}")
            return

        if src_before is not None:
            src_after = read(stage)
            if not (src_before.ok and src_after.ok) or repr(src_before.rows) != repr(src_after.rows):
                ctx.fail(sig("source-changed", "rows"), f"{src_before} -> {src_after}")
        got = read(target)
        if not got.ok:
            ctx.fail(sig(f"read-back-raises|{got.etype}", "target"), f"{got}")
            return
        if len(got.rows) != len(rows):
            ctx.fail(sig("wrong-count", "target-rows"), f"{len(got.rows)} rows read back, {len(rows)} written")
            return
        reported = set()
        for i, (g, r) in enumerate(zip(got.rows, rows)):
            if g[0] != i:
                ctx.fail(sig("wrong-value", "rid"), f"{g!r}")
                return
            for j, f in enumerate(fams):
                w = _want(f, r[j])
                if not _same(f, g[j + 1], w):
                    s_ = sig(_mode(f, g[j + 1], w), f)
                    if s_ not in reported:
                        reported.add(s_)
                        ctx.fail(s_, f"{cols[j][1]}: wrote {r[j]!r} read {g[j + 1]!r} want {w!r}")
        # the same rows read through fetch_pandas_all: the timestamp columns (the kind whose range pandas can narrow) are compared too
        ts_cols = [j for j, f in enumerate(fams) if f == "ts_ntz"]
        if ts_cols and case.get("read_pandas", True):
            pc = conn.cursor()
            try:
                pc.execute(f"SELECT {', '.join(names)} FROM {target} ORDER BY rid")
                df = pc.fetch_pandas_all()
            except Exception as e:
                ctx.fail(sig(f"fetch_pandas_all-raises|{etype_name(e)}", "ts_ntz"), f"{e}")
                df = None
            if df is not None:
                ctx.cls("read-back-through-pandas")
                for i, r in enumerate(rows):
                    for j in ts_cols:
                        g = df.iloc[i, j + 1]
                        if hasattr(g, "to_pydatetime"):
                            try:
                                g = g.to_pydatetime()
                            except Exception:
                                pass
                        is_null = g is None or g != g or str(g) == "NaT"
                        if (r[j] is None) != is_null or (r[j] is not None and not is_null and g != r[j]):
                            ctx.fail(sig("wrong-value|fetch_pandas_all", "ts_ntz"), f"{cols[j][1]}: wrote {r[j]!r}, fetch_pandas_all gives {g!r}")
                            break
        by = run(conn.cursor(), "SELECT x, y FROM BYSTANDER ORDER BY x")
        if not by.ok or by.rows != [(1, "keep"), (2, None)]:
            ctx.fail(sig("bystander-changed", "rows"), f"{by}")
        snap = snapshot(fs, rows=False)
        tabs = sorted(t[2] for t in snap["tables"] if t[0] == "DB1" and t[1] == "S1")
        if tabs != sorted({"BYSTANDER", target, stage}):
            ctx.fail(sig("extra-object", "tables"), f"{tabs}")
        nonnull = [(f, v) for r in rows for f, v in zip(fams, r) if v is not None]
        ctx.nontrivial = any(_is_edge(f, v) for f, v in nonnull) or (len(rows) >= 2 and any(v is None for r in rows for v in r) and bool(nonnull))
    finally:
        snowflake.connector.paramstyle = old_style
        close_instance(fs)


def _blame(o, fams) -> str:
    return "+".join(sorted(set(fams)))


def _blame_row(fams, r) -> str:
    present = sorted({f for f, v in zip(fams, r) if v is not None})
    return present[0] if len(present) == 1 else "mixed:" + "+".join(present)


PROP = Prop(
    id="C01",
    facets=[
        Facet(
            name="roundtrip",
            strategy=_case,
            run=run_roundtrip,
            rule=(
                "Hypothesis draws 1-4/8 columns from 12 type families (38 spellings: BOOLEAN, INT family, NUMBER(p,0), NUMBER(p,s) up to 38 "
                "digits, FLOAT family, VARCHAR/STRING/TEXT, DATE, TIME, TIMESTAMP_NTZ/TIMESTAMP/DATETIME, TIMESTAMP_TZ, BINARY, "
                "VARIANT/OBJECT/ARRAY), 1-6/25 rows of edge-biased values exactly representable in the type with NULLs anywhere, and one of 8 "
                "ingestion paths (SQL literal, pyformat seq/dict, qmark, INSERT..SELECT, CTAS, CLONE, write_pandas). Oracle: identity - "
                "SELECT ORDER BY rid returns the written values in the connector's Python type; source/bystander tables unchanged. "
                "Non-trivial: >=1 non-NULL edge value of its family, or >=2 rows with a NULL among non-NULLs."
            ),
            quick=250,
            thorough=4000,
            budget_quick=60,
        )
    ],
    assumptions=[
        "integer family bounded to int64 (documented mapping to BIGINT); values exactly representable at the declared precision/scale",
        "float literals are written in exponent notation, or in plain decimal notation when float_plain is drawn",
        "write_pandas carries pandas-native kinds only (int64, float64, object str/bool/date/dict/list, datetime64[ns])",
        "'$' and NUL are excluded from text (C15 finding / DuckDB SQL text limit)",
    ],
)
