"""C20 — patch() and the CLI switch the fake on and off cleanly."""

from __future__ import annotations

import contextlib
import importlib
import io
import itertools
import json
import os
import shutil
import sys
import tempfile
import unittest.mock as mock

import snowflake.connector
import snowflake.connector.pandas_tools
from hypothesis import strategies as st

import fakesnow
import fakesnow.cli
from vf.engine import Ctx, Facet, InvalidCase, Prop
from vf.util import etype_name

ORIG_CONNECT = snowflake.connector.connect
ORIG_WP = snowflake.connector.pandas_tools.write_pandas
assert not isinstance(ORIG_CONNECT, mock.MagicMock)

# ----------------------------------------------------------------------------- CLI

DB_FORMS = {
    "none": [],
    "-d p": ["-d", "p"],
    "--db_path p": ["--db_path", "p"],
    "--db_path=p": ["--db_path=p"],
    "-dp": ["-dp"],
}
TGT_FORMS = {
    "-m mod": (["-m", "mod"], "module"),
    "--module mod": (["--module", "mod"], "module"),
    "--module=mod": (["--module=mod"], "module"),
    "-mmod": (["-mmod"], "module"),
    "path": (["script.py"], "path"),
    # a target spelled like the value given to the database option (the same token twice in one argument vector)
    "path=p": (["p"], "path"),
    "-m p": (["-m", "p"], "module"),
}
TGT_NAME = {"path=p": "p", "-m p": "p"}
E2E_TGT = ["-m mod", "--module mod", "--module=mod", "-mmod", "path"]  # the end-to-end facet runs real targets
TOKENS = ["-d", "--db_path", "--db_path=p", "-dp", "-m", "--module", "--module=mod", "-mmod", "script.py", "mod", "p", "--", "-x", "--colour", "rainbow", ""]
OWN_SPELLINGS = {"-d", "--db_path", "--db_path=p", "-dp", "-m", "--module", "--module=mod", "-mmod"}


def cli_reference(db: str, tgt: str | None, targs: list[str]) -> dict:
    """Reference parser of the documented grammar: [db option] (-m MOD | PATH) target-args..."""
    exp = {"db_path": None if db == "none" else "p"}
    if tgt is None:
        exp.update(ran=None, argv=None, rc=42)
    else:
        kind = TGT_FORMS[tgt][1]
        name = TGT_NAME.get(tgt) or ("mod" if kind == "module" else "script.py")
        exp.update(ran=(kind, name), argv=[name, *targs], rc=0)
    return exp


def _enum_cli(tier: str):
    maxlen = 3 if tier == "quick" else 4  # 16^4 tails x 7 targets x 5 option forms = 2.4 million vectors, still enumerated completely
    for db in DB_FORMS:
        yield {"db": db, "tgt": None, "targs": []}
        for tgt in TGT_FORMS:
            for n in range(maxlen + 1):
                for targs in itertools.product(range(len(TOKENS)), repeat=n):
                    yield {"db": db, "tgt": tgt, "targs": list(targs)}


def _observe_main(argv: list[str]) -> dict:
    """Run fakesnow.cli.main(argv) with the patch context and runpy replaced by recorders."""
    obs: dict = {"ran": None, "argv": None, "db_path": "<patch not entered>", "rc": None, "exit": None}

    @contextlib.contextmanager
    def fake_patch(*a, **k):
        obs["db_path"] = k.get("db_path")
        obs["patch_args"] = [repr(a), sorted(k)]
        yield None

    def run_module(name, *a, **k):
        obs["ran"] = ("module", name)
        obs["argv"] = list(sys.argv)

    def run_path(name, *a, **k):
        obs["ran"] = ("path", name)
        obs["argv"] = list(sys.argv)

    saved_argv, saved_path = list(sys.argv), list(sys.path)
    out, err = io.StringIO(), io.StringIO()
    try:
        with mock.patch.object(fakesnow, "patch", fake_patch), mock.patch("runpy.run_module", run_module), mock.patch(
            "runpy.run_path", run_path
        ), contextlib.redirect_stdout(out), contextlib.redirect_stderr(err):
            try:
                obs["rc"] = fakesnow.cli.main(argv)
            except SystemExit as e:
                obs["exit"] = e.code
    finally:
        sys.argv[:] = saved_argv
        sys.path[:] = saved_path
    return obs


def run_cli_split(case, ctx: Ctx) -> None:
    db, tgt = case["db"], case["tgt"]
    if db not in DB_FORMS or (tgt is not None and tgt not in TGT_FORMS):
        raise InvalidCase()
    targs = [TOKENS[i] for i in case["targs"]]
    argv = DB_FORMS[db] + (TGT_FORMS[tgt][0] if tgt else []) + targs
    want = cli_reference(db, tgt, targs)
    try:
        obs = _observe_main(argv)
    except Exception as e:
        ctx.fail(f"C20|cli|raises|{etype_name(e)}|db={db}|tgt={tgt}", f"argv={argv}: {e}")
        return
    ctx.cls(f"db:{db}", f"tgt:{tgt}")
    own = any(t in OWN_SPELLINGS for t in targs)
    if own:
        ctx.cls("targs-contain-own-option-spelling")
    ctx.nontrivial = own or "=" in db or db == "-dp" or (tgt in ("--module=mod", "-mmod"))
    disc = f"db={db}|tgt={tgt}"
    if obs["exit"] is not None:
        ctx.fail(f"C20|cli|argparse-exit|{disc}", f"argv={argv} exited {obs['exit']}")
        return
    if obs["ran"] != want["ran"]:
        ctx.fail(f"C20|cli|wrong-target|{disc}", f"argv={argv}: ran {obs['ran']} want {want['ran']}")
        return
    if obs["argv"] != want["argv"]:
        ctx.fail(f"C20|cli|wrong-target-argv|{disc}", f"argv={argv}: target saw {obs['argv']} want {want['argv']}")
    if obs["db_path"] != want["db_path"]:
        ctx.fail(f"C20|cli|wrong-db_path|{disc}", f"argv={argv}: db_path {obs['db_path']!r} want {want['db_path']!r}")
    if obs["rc"] != want["rc"]:
        ctx.fail(f"C20|cli|wrong-rc|{disc}", f"argv={argv}: rc {obs['rc']} want {want['rc']}")


# ---- end to end: real patch(), real runpy, a real target recording its argv

HELPER_MOD = "vf.helpers.cli_target"


@st.composite
def _cli_e2e_case(draw, tier):
    return {
        "db": draw(st.sampled_from(sorted(DB_FORMS))),
        "tgt": draw(st.sampled_from(sorted(E2E_TGT))),
        "targs": draw(st.lists(st.integers(0, len(TOKENS) - 1), max_size=6)),
    }


def run_cli_e2e(case, ctx: Ctx) -> None:
    db, tgt = case["db"], case["tgt"]
    if db not in DB_FORMS or tgt not in E2E_TGT:
        raise InvalidCase()
    tmp = tempfile.mkdtemp(prefix="vf-c20-")
    saved_argv, saved_path, saved_env = list(sys.argv), list(sys.path), os.environ.get("VF_CLI_RECORD")
    try:
        dbdir = os.path.join(tmp, "dbs")
        os.mkdir(dbdir)
        script = os.path.join(tmp, "script.py")
        shutil.copy(importlib.import_module(HELPER_MOD).__file__, script)
        record = os.path.join(tmp, "record.json")
        os.environ["VF_CLI_RECORD"] = record
        targs = [TOKENS[i] for i in case["targs"]]
        sub = lambda t: {"--db_path=p": "--db_path=" + dbdir, "-dp": "-d" + dbdir, "p": dbdir}.get(t, t)  # noqa: E731  (whole tokens only)
        dbargs = [sub(t) for t in DB_FORMS[db]]
        kind = TGT_FORMS[tgt][1]
        tname = HELPER_MOD if kind == "module" else script
        tgargs = {
            "-m mod": ["-m", HELPER_MOD],
            "--module mod": ["--module", HELPER_MOD],
            "--module=mod": ["--module=" + HELPER_MOD],
            "-mmod": ["-m" + HELPER_MOD],
            "path": [script],
        }[tgt]
        argv = dbargs + tgargs + targs
        sys.modules.pop(HELPER_MOD, None)
        out = io.StringIO()
        rc = exc = None
        try:
            with contextlib.redirect_stdout(out), contextlib.redirect_stderr(out):
                rc = fakesnow.cli.main(argv)
        except SystemExit as e:
            exc = f"SystemExit({e.code})"
        except Exception as e:
            exc = f"{etype_name(e)}: {e}"
        disc = f"db={db}|tgt={tgt}"
        ctx.cls(f"e2e-db:{db}", f"e2e-tgt:{tgt}")
        ctx.nontrivial = any(t in OWN_SPELLINGS for t in targs) or "=" in db or db == "-dp" or tgt in ("--module=mod", "-mmod")
        if snowflake.connector.connect is not ORIG_CONNECT:
            ctx.fail("C20|cli-e2e|not-restored|snowflake.connector.connect", f"argv={argv}")
            _force_restore()
        if exc is not None:
            ctx.fail(f"C20|cli-e2e|raises|{disc}", f"argv={argv}: {exc} output={out.getvalue()[-300:]!r}")
            return
        if not os.path.exists(record):
            ctx.fail(f"C20|cli-e2e|target-not-run|{disc}", f"argv={argv} rc={rc} output={out.getvalue()[-300:]!r}")
            return
        rec = json.load(open(record))
        if rec.get("error") or not rec.get("fake") or rec.get("row") != 42:
            ctx.fail(f"C20|cli-e2e|target-not-faked|{disc}", f"argv={argv}: {rec}")
        # like `python -m`, runpy replaces argv[0] of a module target by the module's file
        argv0_ok = rec["argv"][:1] == [tname] or (kind == "module" and rec["argv"][:1] and rec["argv"][0].endswith("cli_target.py"))
        if not argv0_ok or rec["argv"][1:] != targs:
            ctx.fail(f"C20|cli|wrong-target-argv|{disc}", f"(end-to-end) argv={argv}: target saw {rec['argv']} want {[tname, *targs]}")
        has_file = os.path.exists(os.path.join(dbdir, "DB1.db"))
        if has_file != (db != "none"):
            ctx.fail(f"C20|cli|wrong-db_path|{disc}", f"(end-to-end) argv={argv}: DB1.db under the given path exists={has_file}")
        stray = [f for f in os.listdir(tmp) if f not in ("dbs", "script.py", "record.json", "__pycache__")]
        if stray:
            ctx.fail(f"C20|cli-e2e|stray-files|{disc}", f"{stray}")
    finally:
        sys.argv[:] = saved_argv
        sys.path[:] = saved_path
        if saved_env is None:
            os.environ.pop("VF_CLI_RECORD", None)
        else:
            os.environ["VF_CLI_RECORD"] = saved_env
        sys.modules.pop(HELPER_MOD, None)
        for f in ("DB1.db", "DB1.db.wal"):
            if os.path.exists(f) and os.getcwd() != tmp:
                pass
        shutil.rmtree(tmp, ignore_errors=True)


# ----------------------------------------------------------------------------- patch()

GOOD = {
    "from-import-connect": ("vf.helpers.imp_connect.connect", "vf.helpers.imp_connect", "connect", "connect"),
    "from-import-write_pandas": ("vf.helpers.imp_write_pandas.write_pandas", "vf.helpers.imp_write_pandas", "write_pandas", "wp"),
    "lazy-module": ("vf.helpers.imp_lazy.connect", "vf.helpers.imp_lazy", "connect", "connect"),
}
BAD = {
    "missing-module": "vf_no_such_module_xyz.connect",
    "missing-attr": "vf.helpers.imp_connect.nothing_here",
    "non-snowflake-fn": "os.path.join",
    "dotless": "connect",
}
KINDS = sorted(GOOD) + sorted(BAD)
EXITS = ["normal", "body-raises"]


def _force_restore() -> None:
    snowflake.connector.connect = ORIG_CONNECT
    snowflake.connector.pandas_tools.write_pandas = ORIG_WP
    for _t, modname, attr, which in GOOD.values():
        m = sys.modules.get(modname)
        if m is not None and modname != "vf.helpers.imp_lazy":
            setattr(m, attr, ORIG_CONNECT if which == "connect" else ORIG_WP)
    sys.modules.pop("vf.helpers.imp_lazy", None)


def _targets_state() -> dict:
    st_ = {
        "snowflake.connector.connect": snowflake.connector.connect,
        "snowflake.connector.pandas_tools.write_pandas": snowflake.connector.pandas_tools.write_pandas,
    }
    for t, modname, attr, _w in GOOD.values():
        m = sys.modules.get(modname)
        if m is not None:
            st_[t] = getattr(m, attr)
    return st_


def _orig_of(target: str):
    return ORIG_WP if target.endswith("write_pandas") else ORIG_CONNECT


class _Boom(Exception):
    pass


@st.composite
def _patch_case(draw, tier):
    entries = []
    for _ in range(draw(st.integers(1, 4))):
        entries.append(
            {
                "targets": draw(st.lists(st.sampled_from(KINDS), max_size=4)),
                "as_str": draw(st.booleans()),
                "exit": draw(st.sampled_from(EXITS)),
                "nested": draw(st.booleans()),
                "opts": draw(st.sampled_from(["default", "no-create", "db_path", "nop"])),
            }
        )
    return {"entries": entries}


def run_patch(case, ctx: Ctx) -> None:
    importlib.import_module("vf.helpers.imp_connect")
    importlib.import_module("vf.helpers.imp_write_pandas")
    _force_restore()
    tmp = None
    try:
        for ei, ent in enumerate(case["entries"]):
            kinds = ent["targets"]
            if any(k not in KINDS for k in kinds):
                raise InvalidCase()
            targets = [GOOD[k][0] if k in GOOD else BAD[k] for k in kinds]
            extra = targets
            if ent["as_str"] and len(targets) == 1:
                extra = targets[0]
                ctx.cls("str-instead-of-list")
            bad = [k for k in kinds if k in BAD]
            for k in kinds:
                ctx.cls(f"target:{k}")
            kw = {}
            if ent["opts"] == "no-create":
                kw = {"create_database_on_connect": False, "create_schema_on_connect": False}
            elif ent["opts"] == "db_path":
                tmp = tmp or tempfile.mkdtemp(prefix="vf-c20p-")
                kw = {"db_path": tmp}
            elif ent["opts"] == "nop":
                kw = {"nop_regexes": ["^CALL .*"]}
            # lazy module semantics: "not yet imported" at entry
            if "lazy-module" in kinds:
                sys.modules.pop("vf.helpers.imp_lazy", None)
            before = _targets_state()
            not_orig = [t for t, o in before.items() if o is not _orig_of(t)]
            if not_orig:
                # state left behind by the previous entry was already reported there; reset to continue
                _force_restore()
            inside_conn = None
            entered = False
            raised = None
            try:
                with fakesnow.patch(extra, **kw):
                    entered = True
                    if bad:
                        ctx.fail(f"C20|patch|bad-target-accepted|{bad[0]}", f"targets={targets}")
                    # inside: every standard and (valid) extra target is the fake
                    inside = _targets_state()
                    for t in ["snowflake.connector.connect", "snowflake.connector.pandas_tools.write_pandas"] + [
                        GOOD[k][0] for k in kinds if k in GOOD
                    ]:
                        if not isinstance(inside.get(t), mock.MagicMock):
                            ctx.fail(f"C20|patch|not-faked-inside|{t.rsplit('.', 2)[-2]}", f"{t} is {inside.get(t)!r}")
                    # every fake connect yields a working fake connection
                    fns = [snowflake.connector.connect] + [
                        getattr(sys.modules[GOOD[k][1]], "connect") for k in kinds if k in GOOD and GOOD[k][3] == "connect"
                    ]
                    for fn in fns:
                        c = fn(database="db1", schema="s1")
                        rows = c.cursor().execute("select 7").fetchall()
                        if rows != [(7,)] or not type(c).__module__.startswith("fakesnow"):
                            ctx.fail("C20|patch|fake-connect-broken", f"{rows!r} {type(c)}")
                        inside_conn = c
                    if ent["nested"]:
                        ctx.cls("nested-attempt")
                        try:
                            with fakesnow.patch():
                                ctx.fail("C20|patch|nested-not-refused", "")
                        except AssertionError:
                            pass
                        except Exception as e:
                            ctx.fail(f"C20|patch|nested-raises|{etype_name(e)}", str(e))
                        # the outer one keeps working
                        if not isinstance(snowflake.connector.connect, mock.MagicMock):
                            ctx.fail("C20|patch|nested-damaged-outer|unpatched", "")
                        else:
                            try:
                                r = snowflake.connector.connect(database="db1", schema="s1").cursor().execute("select 8").fetchall()
                                if r != [(8,)]:
                                    ctx.fail("C20|patch|nested-damaged-outer|wrong-rows", repr(r))
                            except Exception as e:
                                ctx.fail(f"C20|patch|nested-damaged-outer|{etype_name(e)}", str(e))
                    if ent["exit"] == "body-raises":
                        raise _Boom()
            except _Boom:
                raised = "body"
            except Exception as e:
                raised = etype_name(e)
                if entered:
                    ctx.fail(f"C20|patch|raises-inside|{raised}", str(e))
                elif not bad:
                    ctx.fail(f"C20|patch|setup-raises|{raised}|{'+'.join(sorted(set(kinds))) or 'std'}", f"targets={targets}: {e}")
            mode = "setup-failed" if (bad and not entered) else ent["exit"]
            ctx.cls(f"exit:{mode}")
            # after: every target is the original object again
            after = _targets_state()
            for t, o in after.items():
                if o is not _orig_of(t):
                    short = "std" if t.startswith("snowflake.") else t.split(".")[2]
                    ctx.fail(
                        f"C20|patch|not-restored|{mode}|{short}",
                        f"after {mode} exit of patch({targets}) {t} is {o!r}",
                    )
            # a connection obtained inside is closed afterwards
            if inside_conn is not None:
                try:
                    inside_conn.cursor().execute("select 1")
                    ctx.fail(f"C20|patch|connection-not-closed|{mode}", "")
                except snowflake.connector.errors.DatabaseError as e:
                    if e.errno != 250002:
                        ctx.fail(f"C20|patch|closed-conn-wrong-errno|{e.errno}", str(e))
                except Exception as e:
                    ctx.fail(f"C20|patch|closed-conn-raises|{etype_name(e)}", str(e))
            if ent["exit"] != "normal" or kinds:
                ctx.nontrivial = True
        # finally: patch() can be entered again
        _force_restore_needed = any(o is not _orig_of(t) for t, o in _targets_state().items())
        if not _force_restore_needed:
            try:
                with fakesnow.patch():
                    if not isinstance(snowflake.connector.connect, mock.MagicMock):
                        ctx.fail("C20|patch|reentry-not-faked", "")
            except Exception as e:
                ctx.fail(f"C20|patch|reentry-raises|{etype_name(e)}", str(e))
    finally:
        _force_restore()
        if tmp:
            shutil.rmtree(tmp, ignore_errors=True)


def _selftest() -> None:
    assert cli_reference("none", "path", ["-d", "x"]) == {"db_path": None, "ran": ("path", "script.py"), "argv": ["script.py", "-d", "x"], "rc": 0}
    assert cli_reference("-d p", "-m mod", []) == {"db_path": "p", "ran": ("module", "mod"), "argv": ["mod"], "rc": 0}
    assert cli_reference("-d p", None, [])["rc"] == 42
    # the repo's own pinned examples (tests/test_cli.py::test_split), via the reference grammar
    assert cli_reference("none", "path", ["-m", "test"])["argv"] == ["script.py", "-m", "test"]


PROP = Prop(
    id="C20",
    selftest=_selftest,
    facets=[
        Facet(
            name="cli_argv",
            strategy=None,
            enumerate=_enum_cli,
            run=run_cli_split,
            rule=(
                "Exhaustive enumeration of valid invocations: 5 db_path option forms (none, -d p, --db_path p, --db_path=p, -dp) x "
                "{no target, -m mod, --module mod, --module=mod, -mmod, script.py} x every target-argument sequence of length "
                "0..3 (quick) / 0..5 (thorough) over a 16-token alphabet that includes fakesnow's own option spellings, '--' and ''. "
                "fakesnow.cli.main runs with patch()/runpy replaced by recorders; oracle: reference parser of the documented grammar. "
                "Non-trivial: target args contain one of fakesnow's own option spellings, or an option is in =/attached form."
            ),
            quick_shards=8,
            budget_quick=80,
            budget_thorough=900,
        ),
        Facet(
            name="cli_end_to_end",
            strategy=_cli_e2e_case,
            run=run_cli_e2e,
            rule=(
                "Hypothesis draws option form x target form x 0-6 target args; real fakesnow.cli.main, real patch(), real runpy; the "
                "target records sys.argv, connects and queries; oracle: argv == [target, *args], the fake answered, DB1.db appears "
                "under the given db_path iff one was given."
            ),
            quick=40,
            thorough=400,
            quick_shards=4,
        ),
        Facet(
            name="patch_sequences",
            strategy=_patch_case,
            run=run_patch,
            rule=(
                "Hypothesis draws 1-4 consecutive patch() entries, each with 0-4 extra targets from {from-import connect, from-import "
                "write_pandas, not-yet-imported module, missing module, missing attribute, non-snowflake function, dotless string}, "
                "list or str form, options, exit mode {normal, body raises, (setup fails when a bad target is present)}, optional nested "
                "attempt. Oracle: object identity before/inside/after, fake connect works inside, connection closed after, re-entry works. "
                "Non-trivial: an exit mode other than normal or >=1 extra target."
            ),
            quick=120,
            thorough=1500,
            quick_shards=4,
        ),
    ],
    assumptions=[
        "valid invocations only: option values and the target do not start with '-', no argparse abbreviations, no '--' before the target",
        "cli_argv observes main() at its boundary with fakesnow.patch and runpy (both replaced by recorders)",
    ],
)
