"""C19 — concurrent sessions behave as if their statements ran one at a time."""

from __future__ import annotations

import itertools
import threading

from hypothesis import strategies as st

from vf import instr
from vf.engine import Ctx, Facet, InvalidCase, Prop
from vf.util import close_instance, etype_name, new_instance, run, snapshot

# session operations (each is one fakesnow call; several engine calls underneath)
_op = st.one_of(
    st.tuples(st.just("connect"), st.sampled_from(["DBX", "DBY"]), st.sampled_from(["SX", "SY"])).map(list),
    st.tuples(st.just("connect"), st.sampled_from(["DBX", "DBY"]), st.sampled_from(["SX", "SY"])).map(list),
    st.tuples(st.just("insert"), st.integers(0, 99)).map(list),
    st.tuples(st.just("insert"), st.integers(0, 99)).map(list),
    st.tuples(st.just("create_comment"), st.sampled_from(["CA", "CB"])).map(list),
    st.tuples(st.just("create_lengths"), st.sampled_from(["CA", "CB", "CC"])).map(list),
    st.tuples(st.just("merge"), st.integers(0, 5)).map(list),
    st.tuples(st.just("merge"), st.integers(0, 5)).map(list),
    st.tuples(st.just("update"), st.integers(0, 9)).map(list),
    st.tuples(st.just("comment_shared"), st.sampled_from(["comment-on", "alter-set-comment"])).map(list),
    st.tuples(st.just("touch_target"), st.integers(0, 2)).map(list),
    st.tuples(st.just("count")).map(list),
    st.tuples(st.just("info_tables")).map(list),
    st.tuples(st.just("info_columns")).map(list),
    st.tuples(st.just("show_tables")).map(list),
    st.tuples(st.just("describe"), st.sampled_from(["CA", "CB"])).map(list),
)


# single engine-call statements plus connect: no statement here can legitimately be observed half-done
_op_atomic = st.one_of(
    st.tuples(st.just("connect"), st.sampled_from(["DBX", "DBY"]), st.sampled_from(["SX", "SY"])).map(list),
    st.tuples(st.just("connect"), st.sampled_from(["DBX", "DBY"]), st.sampled_from(["SX", "SY"])).map(list),
    st.tuples(st.just("insert"), st.integers(0, 99)).map(list),
    st.tuples(st.just("insert"), st.integers(0, 99)).map(list),
    st.tuples(st.just("update"), st.integers(0, 9)).map(list),
    st.tuples(st.just("count")).map(list),
    st.tuples(st.just("show_tables")).map(list),
    st.tuples(st.just("info_tables")).map(list),
)


@st.composite
def _case(draw, tier):
    k = draw(st.sampled_from([2, 2, 3]))
    maxops = 3 if k == 2 else 2
    alphabet = draw(st.sampled_from(["atomic", "all"]))
    scripts = [draw(st.lists(_op_atomic if alphabet == "atomic" else _op, min_size=1, max_size=maxops)) for _ in range(k)]
    if draw(st.integers(0, 2)) == 0:
        # every session runs the same kind of multi-step statement (two MERGEs, two connects creating the same database, ...): the
        # interleavings in which their internal steps cross are the ones no reader is needed for
        kind = draw(st.sampled_from(["merge", "connect"] if alphabet == "atomic" else ["merge", "connect", "create_comment", "create_lengths", "comment_shared", "comment_shared", "merge_vs_touch", "merge_vs_touch", "merge_vs_touch"]))
        if kind == "merge" and alphabet == "atomic":
            alphabet = "all"
        if kind == "merge_vs_touch":
            # one session merges into its target while the others write (without changing anything) the very rows that MERGE updates
            for si, sc in enumerate(scripts):
                sc[0] = ["merge", 0] if si == 0 else ["touch_target", 0]
            kind = None
        for sc in scripts if kind else []:
            first = {"comment_shared": ["comment_shared", draw(st.sampled_from(["comment-on", "alter-set-comment"]))], "merge": ["merge", 0], "connect": ["connect", "DBX", draw(st.sampled_from(["SX", "SY"]))], "create_comment": ["create_comment", "CA"], "create_lengths": ["create_lengths", "CA"]}[kind]
            sc[0] = first
    nsched = 6 if tier == "quick" else 16
    schedules = [draw(st.lists(st.integers(0, k - 1), min_size=2, max_size=40)) for _ in range(nsched)]
    return {"scripts": scripts, "schedules": schedules, "instance": draw(st.sampled_from(["default", "default", "no-create-database"]))}


def _exec_op(fs, state: dict, sid: int, op) -> tuple:
    """Run one session operation; returns a comparable outcome."""
    kind = op[0]
    try:
        if kind == "connect":
            state["conn"] = fs.connect(op[1], op[2])
            return ("ok", (state["conn"].database, state["conn"].schema))
        conn = state.get("conn") or state["default"]
        cur = conn.cursor()
        if kind == "insert":
            o = run(cur, f"INSERT INTO DB0.S0.SHARED VALUES ({sid * 1000 + int(op[1])}, {sid})")
        elif kind == "create_comment":
            o = run(cur, f"CREATE TABLE IF NOT EXISTS DB0.S0.{op[1]}_{sid} (V VARCHAR(10)) COMMENT = 'made by {sid}'")
        elif kind == "create_lengths":
            o = run(cur, f"CREATE OR REPLACE TABLE DB0.S0.{op[1]}_{sid} (A VARCHAR({10 + sid}), B VARCHAR({20 + sid}))")
        elif kind == "merge":
            # bare names (qualified names in MERGE are a listed C12 finding): always through the session's DB0.S0 connection
            o = run(state["default"].cursor(), f"MERGE INTO TGT{sid} USING SRC ON TGT{sid}.K = SRC.K WHEN MATCHED THEN UPDATE SET V = SRC.V WHEN NOT MATCHED THEN INSERT (K, V) VALUES (SRC.K, SRC.V)")
            if o.ok:
                o.rows = [tuple(int(x) for x in o.rows[0])]
        elif kind == "comment_shared":
            # every session comments the same table, which has no comment yet: in any serial order all succeed and the last one stays
            o = run(cur, f"COMMENT ON TABLE DB0.S0.SHARED IS 'by {sid}'" if op[1] == "comment-on" else f"ALTER TABLE DB0.S0.SHARED SET COMMENT = 'by {sid}'")
        elif kind == "touch_target":
            # a write that changes nothing to the rows of session <n>'s MERGE target (the rows that MERGE updates among them)
            o = run(cur, f"UPDATE DB0.S0.TGT{int(op[1]) % state['k']} SET V = V WHERE K >= 0")
            if o.ok:
                o.rows = [(">=2" if int(o.rows[0][0]) >= 2 else int(o.rows[0][0]),)]  # (how many rows the target has by then depends on the order, both ways are serial)
        elif kind == "update":
            o = run(cur, f"UPDATE DB0.S0.SHARED SET OWNER = OWNER WHERE TAG = {sid * 1000 + int(op[1])}")
        elif kind == "count":
            o = run(cur, "SELECT COUNT(*) FROM DB0.S0.SHARED")
        elif kind == "info_tables":
            o = run(cur, "SELECT table_name, comment FROM DB0.information_schema.tables WHERE table_catalog = 'DB0' AND table_schema = 'S0' ORDER BY table_name")
        elif kind == "info_columns":
            o = run(cur, "SELECT table_name, column_name, character_maximum_length FROM DB0.information_schema.columns WHERE table_catalog = 'DB0' AND table_schema = 'S0' AND table_name LIKE 'C%' ORDER BY 1, 2")
        elif kind == "show_tables":
            o = run(cur, "SHOW TERSE TABLES IN SCHEMA DB0.S0")
            if o.ok:
                o.rows = sorted((r[1], r[2]) for r in o.rows)
        elif kind == "describe":
            o = run(cur, f"DESCRIBE TABLE DB0.S0.{op[1]}_{sid}")
            if o.ok:
                o.rows = [(r[0], r[1]) for r in o.rows]
        else:
            raise InvalidCase()
        if o.ok:
            return ("ok", repr(o.rows))
        return ("err", o.etype, o.errno)
    except InvalidCase:
        raise
    except Exception as e:
        return ("err", etype_name(e), getattr(e, "errno", None))


def _new_fs(instance: str):
    if instance == "default":
        return new_instance()
    if instance == "no-create-database":
        # databases come from CREATE DATABASE only; connect still creates the schema it is given
        return new_instance(create_database_on_connect=False)
    raise InvalidCase()


def _setup(fs, k: int, instance: str = "default") -> list[dict]:
    if instance == "no-create-database":
        pre = fs.connect().cursor()
        for d in ("DB0", "DBX", "DBY"):
            pre.execute(f"CREATE DATABASE {d}")
    boot = fs.connect("DB0", "S0")
    cur = boot.cursor()
    cur.execute("CREATE TABLE SHARED (TAG INT, OWNER INT)")
    cur.execute("CREATE TABLE SRC (K INT, V VARCHAR)")
    cur.execute("INSERT INTO SRC VALUES (1, 'one'), (2, 'two'), (3, 'three')")
    states = []
    for sid in range(k):
        cur.execute(f"CREATE TABLE TGT{sid} (K INT, V VARCHAR)")
        # targets differ per session, so that one session's MERGE working from another's intermediate result shows
        cur.execute(f"INSERT INTO TGT{sid} VALUES ({1 + sid}, 'old{sid}'), ({9 - sid}, 'nine{sid}')")
        states.append({"default": fs.connect("DB0", "S0"), "k": k})
    return states


def _final(fs) -> str:
    s = snapshot(fs)
    return repr((s["schemas"], s["tables"], s["columns"], sorted(s["rows"].items())))


def _serial_references(scripts, instance: str = "default") -> dict:
    """Every statement-level interleaving of the scripts, each on a fresh instance (no scheduler)."""
    k = len(scripts)
    idx = [sid for sid, sc in enumerate(scripts) for _ in sc]
    refs = {}
    for order in sorted(set(itertools.permutations(idx))):
        fs = _new_fs(instance)
        try:
            states = _setup(fs, k, instance)
            pos = [0] * k
            outs: list = [[None] * len(sc) for sc in scripts]
            for sid in order:
                outs[sid][pos[sid]] = _exec_op(fs, states[sid], sid, scripts[sid][pos[sid]])
                pos[sid] += 1
            refs.setdefault((repr(outs), _final(fs)), (order, outs))
        finally:
            close_instance(fs)
    return refs


MULTI = {"connect": "connect-bootstrap", "merge": "merge", "create_comment": "create+comment", "create_lengths": "create+lengths", "describe": "describe", "info_tables": "query", "info_columns": "query"}


def run_schedules(case, ctx: Ctx) -> None:
    scripts, schedules = case["scripts"], case["schedules"]
    k = len(scripts)
    if not 2 <= k <= 3 or any(not sc or len(sc) > 3 for sc in scripts) or sum(len(sc) for sc in scripts) > 6:
        raise InvalidCase()
    for sc in scripts:
        for op in sc:
            if not isinstance(op, list) or not op or op[0] not in ("connect", "insert", "create_comment", "create_lengths", "merge", "update", "comment_shared", "touch_target", "count", "info_tables", "info_columns", "show_tables", "describe"):
                raise InvalidCase()
    refs = None
    for schedule in schedules:
        if any(not isinstance(x, int) or not 0 <= x < k for x in schedule):
            raise InvalidCase()
        sched = instr.Scheduler(k, schedule)
        outs: list = [[None] * len(sc) for sc in scripts]
        crashed: list = []
        instance = case.get("instance", "default")
        with instr.installed(sched.hook):
            fs = _new_fs(instance)
        try:
            # the instance was created through the shim, so every cursor handed to a session is proxied
            states = _setup(fs, k, instance)
            ctx.cls(f"instance:{instance}")

            def body(sid: int) -> None:
                instr.set_session(sid)
                sched.started(sid)
                try:
                    for j, op in enumerate(scripts[sid]):
                        outs[sid][j] = _exec_op(fs, states[sid], sid, op)
                except BaseException as e:  # noqa: BLE001
                    crashed.append((sid, repr(e)))
                finally:
                    sched.finished(sid)

            threads = [threading.Thread(target=body, args=(sid,), daemon=True) for sid in range(k)]
            for t in threads:
                t.start()
            try:
                sched.drive()
            except instr.Deadlock as e:
                ctx.fail("C19|hang-under-schedule", f"scripts {scripts} schedule {schedule}: {e}")
                return
            for t in threads:
                t.join(30)
            if crashed:
                ctx.fail("C19|session-thread-crashed", f"{crashed}")
                return
            # classify the interleaving: which multi-step statement was split by another session's engine call
            split = set()
            tr = sched.trace
            cur_op = {}
            for i in range(1, len(tr) - 1):
                if tr[i - 1][0] == tr[i + 1][0] != tr[i][0]:
                    split.add(tr[i - 1][0])
            if sched.preemptions:
                ctx.cls("preempted")
                ctx.nontrivial = True
            for sid in split:
                for op in scripts[sid]:
                    if op[0] in MULTI:
                        ctx.cls(f"split:{MULTI[op[0]]}")
            if refs is None:
                refs = _serial_references(scripts, instance)
            key = (repr(outs), _final(fs))
            if key not in refs:
                # which part disagrees with every serial order?
                outs_ok = any(r[0] == key[0] for r in refs)
                final_ok = any(r[1] == key[1] for r in refs)
                kinds = sorted({op[0] for sc in scripts for op in sc})
                # errors that no serial order produces at that position (errors every order produces are not of interest)
                serial_at = {}
                for _order, souts in refs.values():
                    for a, so in enumerate(souts):
                        for b, o_ in enumerate(so):
                            serial_at.setdefault((a, b), set()).add(repr(o_))
                errs = sorted({o[1] for a, so in enumerate(outs) for b, o in enumerate(so) if o and o[0] == "err" and repr(o) not in serial_at.get((a, b), ())})
                # whose outcome is it that no serial order produces at that position: a statement that only reads (it looked at another
                # session's multi-step statement half-way) or one that writes (its own effect or counts are wrong)?
                READS = {"count", "info_tables", "info_columns", "show_tables", "describe"}
                odd = sorted({scripts[a][b][0] for a, so in enumerate(outs) for b, o in enumerate(so) if repr(o) not in serial_at.get((a, b), ())})
                who = "no-single-outcome" if not odd else ("reader-outcome" if all(k_ in READS for k_ in odd) else "writer-outcome:" + "+".join(k_ for k_ in odd if k_ not in READS))
                serial_errs = set()
                what = "statement-outcomes" if not outs_ok else ("final-state" if not final_ok else "combination")
                writers = [k_ for k_ in kinds if k_ in ("create_comment", "create_lengths", "merge", "comment_shared")]
                disc = "multi-step-writer-present" if writers else ("connect-present" if "connect" in kinds else "single-step-only")
                ctx.fail(
                    f"C19|not-serialisable|{what}|{('raises:' + '+'.join(errs)) if errs else 'no-error'}|{disc}|{who}",
                    f"scripts {scripts} schedule {schedule} (engine-call trace {tr}): outcomes {outs}; no serial order of {len(refs)} distinct serial results matches",
                )
                return
        finally:
            close_instance(fs)


# ------------------------------------------------------------------------------------------ free-running threads


@st.composite
def _free_case(draw, tier):
    return {
        "sessions": draw(st.integers(2, 6)),
        "inserts": draw(st.integers(1, 12)),
        "same_db": draw(st.booleans()),
        "mode": draw(st.sampled_from(["connect+insert", "connect-only", "insert-only", "create-tables"])),
        "context": draw(st.sampled_from(["arguments", "arguments", "none"])),
        "instance": draw(st.sampled_from(["default", "default", "no-create-database"])),
    }


def _run_free_here(case, ctx) -> None:
    n, m, mode = case["sessions"], case["inserts"], case["mode"]
    bare = case.get("context", "arguments") == "none"  # sessions opened without database/schema (they use qualified names anyway)
    instance = case.get("instance", "default")
    fs = _new_fs(instance)
    try:
        if instance == "no-create-database":
            pre_ = fs.connect().cursor()
            for d in ["DBF", "NEWDB"] + [f"NEWDB{i}" for i in range(n)]:
                pre_.execute(f"CREATE DATABASE {d}")
        boot = fs.connect("DBF", "SF")
        boot.cursor().execute("CREATE TABLE DBF.SF.SHARED (TAG INT)")
        pre = [fs.connect() if bare else fs.connect("DBF", "SF") for _ in range(n)] if mode in ("insert-only", "create-tables") else None
        errors: list = []
        barrier = threading.Barrier(n)

        def body(i: int) -> None:
            try:
                barrier.wait(10)
                if pre is None:
                    conn = fs.connect() if bare else fs.connect("NEWDB" if case["same_db"] else f"NEWDB{i}", "NEWS")
                else:
                    conn = pre[i]
                if mode in ("connect+insert", "insert-only"):
                    cur = conn.cursor()
                    for j in range(m):
                        cur.execute(f"INSERT INTO DBF.SF.SHARED VALUES ({i * 1000 + j})")
                        if cur.fetchall() != [(1,)]:
                            errors.append((i, "insert status"))
                elif mode == "create-tables":
                    cur = conn.cursor()
                    for j in range(min(m, 4)):
                        cur.execute(f"CREATE TABLE DBF.SF.T_{i}_{j} (V VARCHAR({5 + j})) COMMENT = 'c{i}'")
            except Exception as e:
                errors.append((i, f"{etype_name(e)}: {str(e)[:200]}"))

        threads = [threading.Thread(target=body, args=(i,), daemon=True) for i in range(n)]
        for t in threads:
            t.start()
        for t in threads:
            t.join(60)
        ctx.cls(f"free:{mode}", f"free:same_db={case['same_db']}", f"free:context={case.get('context', 'arguments')}", f"free:instance={instance}")
        ctx.nontrivial = True
        if any(t.is_alive() for t in threads):
            ctx.fail(f"C19|free-running|hang|{mode}", "a thread did not finish within 60 s")
            return
        if errors:
            kinds = sorted({e[1].split(":")[0] for e in errors})
            ctx.fail(f"C19|free-running|raises|{mode}|{'same-db' if case['same_db'] and pre is None else 'distinct'}|{'+'.join(kinds)}", f"{errors[:4]}")
        if mode in ("connect+insert", "insert-only") and not errors:
            o = run(boot.cursor(), "SELECT TAG FROM DBF.SF.SHARED")
            want = sorted(i * 1000 + j for i in range(n) for j in range(m))
            if not o.ok or sorted(r[0] for r in o.rows) != want:
                ctx.fail(f"C19|free-running|lost-or-duplicated-inserts|{mode}", f"{len(o.rows) if o.ok else o} rows, want {len(want)}")
        if mode == "create-tables" and not errors:
            o = run(boot.cursor(), "SELECT table_name, comment FROM information_schema.tables WHERE table_schema = 'SF' AND table_name LIKE 'T_%' ORDER BY 1")
            want = sorted((f"T_{i}_{j}", f"c{i}") for i in range(n) for j in range(min(m, 4)))
            if not o.ok or sorted(o.rows) != want:
                ctx.fail("C19|free-running|create-with-comment-torn", f"{o.rows if o.ok else o}")
    finally:
        close_instance(fs)


class _Collect:
    """Stands in for Ctx inside the forked child: collects what the parent replays into the real Ctx."""

    def __init__(self):
        self.fails: list = []
        self.classes: list = []
        self.nontrivial = False

    def fail(self, sig: str, detail: str = "") -> None:
        self.fails.append([sig, detail])

    def cls(self, *names: str) -> None:
        self.classes.extend(names)


def run_free(case, ctx: Ctx) -> None:
    """The threads run in a forked child: a crash of the interpreter (two threads inside one engine connection) must end the case,
    not the worker."""
    import json
    import os
    import signal
    import tempfile
    import time

    n, m, mode = case["sessions"], case["inserts"], case["mode"]
    if not (isinstance(n, int) and 2 <= n <= 8 and isinstance(m, int) and 1 <= m <= 20) or mode not in ("connect+insert", "connect-only", "insert-only", "create-tables") or case.get("context", "arguments") not in ("arguments", "none"):
        raise InvalidCase()
    fd, out = tempfile.mkstemp(prefix="vf-c19-", suffix=".json")
    os.close(fd)
    try:
        pid = os.fork()
        if pid == 0:
            code = 3
            try:
                col = _Collect()
                _run_free_here(case, col)
                with open(out, "w") as f:
                    json.dump({"fails": col.fails, "classes": col.classes}, f)
                code = 0
            finally:
                os._exit(code)
        t0 = time.time()
        status = None
        while time.time() - t0 < 150:
            done, st_ = os.waitpid(pid, os.WNOHANG)
            if done:
                status = st_
                break
            time.sleep(0.02)
        ctx.nontrivial = True
        if status is None:
            os.kill(pid, signal.SIGKILL)
            os.waitpid(pid, 0)
            ctx.fail(f"C19|free-running|hang|{mode}", "the process running the threads did not finish within 150 s")
            return
        if os.WIFSIGNALED(status):
            ctx.fail(f"C19|free-running|process-crashed|{mode}|context={case.get('context', 'arguments')}", f"the process running {n} session threads died with signal {os.WTERMSIG(status)}")
            return
        if os.WEXITSTATUS(status) != 0:
            raise RuntimeError(f"free-running child failed with exit status {os.WEXITSTATUS(status)}")
        res = json.load(open(out))
        ctx.cls(*res["classes"])
        for sig, detail in res["fails"]:
            ctx.fail(sig, detail)
    finally:
        os.unlink(out)


PROP = Prop(
    id="C19",
    facets=[
        Facet(
            name="scheduled_interleavings",
            strategy=_case,
            run=run_schedules,
            rule=(
                "Hypothesis draws k in {2,3} session scripts of 1-3 / 1-2 operations (connect with auto-create of the same or different "
                "database/schema, INSERT of a tagged row, CREATE TABLE with COMMENT, CREATE OR REPLACE with VARCHAR lengths, MERGE, UPDATE, "
                "COUNT, information_schema.tables/columns, SHOW TABLES, DESCRIBE) and 6/16 schedules (which session takes each successive "
                "engine call). Every fakesnow<->DuckDB call goes through a proxy that parks the calling thread until a deterministic "
                "scheduler grants the turn, so an interleaving of the individual engine calls is a generated, replayable value. Oracle: the "
                "vector of per-statement outcomes plus the final engine-level snapshot must equal that of at least one of all "
                "statement-level serial orders (each run on a fresh instance); a parked thread that never becomes runnable is a hang. "
                "Non-trivial: the schedule preempted a session between two engine calls."
            ),
            quick=8,
            thorough=120,
            quick_shards=8,
            budget_quick=45,
            budget_thorough=900,
        ),
        Facet(
            name="free_running_threads",
            strategy=_free_case,
            run=run_free,
            deterministic=False,
            rule="2-6 real threads without scheduler: concurrent connects (same or distinct new database), inserts, CREATE TABLE with comment/lengths; invariants that hold for every timing: no exception, every insert present exactly once, every comment recorded.",
            quick=12,
            thorough=150,
            quick_shards=2,
            budget_quick=60,
        ),
    ],
    assumptions=[
        "engine calls are atomic steps of the scheduler; races inside DuckDB or between Python byte-codes are only sampled by the free-running facet",
        "serial reference = statement-level interleavings; outcomes compare rows / error class+errno",
    ],
)
