"""C05 — fetch calls hand out every result row once, in order, at full width."""

from __future__ import annotations

import datetime as dt

import snowflake.connector
from hypothesis import strategies as st
from snowflake.connector.cursor import DictCursor, SnowflakeCursor

from vf.gen import values as gv
from vf.engine import Ctx, Facet, InvalidCase, Prop
from vf.util import close_instance, dec, enc, etype_name, new_instance, same_value, sql_lit

# (sql spelling, reported name)
NAMES = [("A", "A"), ("a", "A"), ("B", "B"), ('"b"', "b"), ('"x y"', "x y"), ('"A"', "A"), ("ID", "ID"), ("c", "C")]
TYPES = {"int": "INT", "str": "VARCHAR", "float": "FLOAT", "bool": "BOOLEAN", "date": "DATE"}


def _val(t: str):
    base = {
        "int": st.integers(-(2**40), 2**40) | st.sampled_from([0, 1, -1, 2**62]),
        "str": gv.text(6),
        "float": st.integers(-(2**30), 2**30).map(lambda k: k / 8.0),  # exactly representable, short literal
        "bool": st.booleans(),
        "date": st.dates(dt.date(1900, 1, 1), dt.date(2100, 1, 1)),
    }[t]
    return st.one_of(st.none(), base, base).map(enc)


@st.composite
def _result(draw, max_rows=12):
    m = draw(st.integers(1, 5))
    cols = draw(st.lists(st.integers(0, len(NAMES) - 1), min_size=m, max_size=m))
    types = draw(st.lists(st.sampled_from(sorted(TYPES)), min_size=m, max_size=m))
    n = draw(st.integers(0, max_rows))
    rows = [[draw(_val(t)) for t in types] for _ in range(n)]
    # what the cursor executes to produce its next result: the SELECT over these rows, or a statement whose result is a status row
    stmt = draw(st.sampled_from(["select", "select", "select", "select", "delete-zero", "update-all", "insert-one", "ddl", "nop"]))
    return {"cols": cols, "types": types, "rows": rows, "stmt": stmt}


_op = st.one_of(
    st.just(["one"]),
    st.tuples(st.just("many"), st.integers(1, 6)).map(list),
    st.just(["many0"]),
    st.tuples(st.just("arraysize"), st.integers(1, 5)).map(list),
    st.just(["all"]),
    st.just(["pandas"]),
    st.just(["rowcount"]),
    st.just(["desc"]),
    st.just(["reexec"]),
)


@st.composite
def _case(draw, tier):
    max_rows = 12 if tier == "quick" else 30
    results = draw(st.lists(_result(max_rows), min_size=1, max_size=3))
    return {
        "cursor": draw(st.sampled_from(["tuple", "dict"])),
        "pre": draw(st.lists(st.sampled_from(["one", "many", "all", "pandas"]), max_size=2)),
        "results": results,
        "ops": draw(st.lists(_op, min_size=1, max_size=12)),
    }


def _expect_no_result_set(cur, op: str, ctx: Ctx) -> None:
    try:
        if op == "one":
            got = cur.fetchone()
        elif op == "many":
            got = cur.fetchmany(2)
        elif op == "all":
            got = cur.fetchall()
        else:
            got = cur.fetch_pandas_all()
        ctx.fail(f"C05|no-result-set|{op}|returned", f"{op} before any execute returned {got!r}")
    except TypeError:
        if op == "pandas":
            ctx.fail("C05|no-result-set|pandas|TypeError", "fetch_pandas_all before execute raised TypeError")
    except snowflake.connector.NotSupportedError:
        if op != "pandas":
            ctx.fail(f"C05|no-result-set|{op}|NotSupportedError", "")
    except Exception as e:
        ctx.fail(f"C05|no-result-set|{op}|{etype_name(e)}", str(e))


def run_fetch(case, ctx: Ctx) -> None:
    results = case["results"]
    if not results:
        raise InvalidCase()
    fs = new_instance(nop_regexes=[r"^\s*VACUUM"])
    try:
        conn = fs.connect(database="DB1", schema="S1")
        cur = conn.cursor(DictCursor if case["cursor"] == "dict" else SnowflakeCursor)
        is_dict = case["cursor"] == "dict"
        for op in case["pre"]:
            _expect_no_result_set(cur, op, ctx)
            ctx.cls("no-result-set")

        setup = conn.cursor()
        state = {"ri": -1}

        def load(ri: int):
            res = results[ri]
            m = len(res["cols"])
            if m == 0 or len(res["types"]) != m or any(len(r) != m for r in res["rows"]):
                raise InvalidCase()
            tname = f"T{ri}"
            coldefs = ", ".join(f"c{j} {TYPES[res['types'][j]]}" for j in range(m))
            setup.execute(f"CREATE OR REPLACE TABLE {tname} (rid INT, {coldefs})")
            rows = [tuple(dec(v) for v in r) for r in res["rows"]]
            if rows:
                vals = ", ".join(
                    "(" + ", ".join([str(i)] + [sql_lit(v, TYPES[res["types"][j]]) for j, v in enumerate(r)]) + ")"
                    for i, r in enumerate(rows)
                )
                setup.execute(f"INSERT INTO {tname} VALUES {vals}")
            proj = ", ".join(f"c{j} AS {NAMES[res['cols'][j]][0]}" for j in range(m))
            names = [NAMES[res["cols"][j]][1] for j in range(m)]
            stmt = res.get("stmt", "select")
            ctx.cls(f"result-of:{stmt}")
            state["rowcount"] = None
            if stmt == "select":
                cur.execute(f"SELECT {proj} FROM {tname} ORDER BY rid")
                return rows, names
            # statements answered with one status row; rowcount is the affected count for DML
            if stmt == "delete-zero":
                cur.execute(f"DELETE FROM {tname} WHERE rid < -5")
                state["rowcount"] = 0
                return [(0,)], ["number of rows deleted"]
            if stmt == "update-all":
                cur.execute(f"UPDATE {tname} SET rid = rid")
                state["rowcount"] = len(rows)
                return [(len(rows), 0)], ["number of rows updated", "number of multi-joined rows updated"]
            if stmt == "insert-one":
                cur.execute(f"INSERT INTO {tname} (rid) VALUES (1000)")
                state["rowcount"] = 1
                return [(1,)], ["number of rows inserted"]
            if stmt == "ddl":
                cur.execute(f"CREATE OR REPLACE TABLE DDL_{ri} (i INT)")
                return [(f"Table DDL_{ri} successfully created.",)], ["status"]
            if stmt == "nop":
                cur.execute("VACUUM everything")  # matches the connection's nop_regexes
                return [("Statement executed successfully.",)], ["status"]
            raise InvalidCase()

        def next_result():
            state["ri"] = (state["ri"] + 1) % len(results)
            rows, names = load(state["ri"])
            state.update(rows=rows, names=names, idx=0)

        next_result()
        arraysize = 1
        splits = 0

        def check_rows(op: str, got, want) -> None:
            names = state["names"]
            m = len(names)
            repeated = len(set(names)) < m
            if repeated:
                ctx.cls("repeated-name")
            if not isinstance(got, list):
                ctx.fail(f"C05|wrong-type|{op}", f"{op} returned {type(got).__name__}")
                return
            if len(got) != len(want):
                ctx.fail(
                    f"C05|wrong-count|{op}|{'after-exhaustion' if not want else 'mid'}",
                    f"{op} returned {len(got)} rows, model {len(want)}; idx={state['idx']} n={len(state['rows'])}",
                )
                return
            for g, w in zip(got, want):
                if is_dict:
                    if not isinstance(g, dict):
                        ctx.fail(f"C05|wrong-type|{op}|dict-cursor-row", repr(g))
                        return
                    if set(g.keys()) != set(names):
                        ctx.fail("C05|dict-keys|differ-from-description", f"keys {list(g)} names {names}")
                        return
                    if not repeated and not all(same_value(g[nm], w[j]) for j, nm in enumerate(names)):
                        ctx.fail(f"C05|wrong-value|{op}|dict", f"got {g!r} want {w!r}")
                        return
                else:
                    if not isinstance(g, tuple):
                        ctx.fail(f"C05|wrong-type|{op}|tuple-cursor-row", repr(g))
                        return
                    if len(g) != m:
                        ctx.fail(
                            f"C05|tuple-width|{'repeated-name' if repeated else 'distinct-names'}",
                            f"{op} row {g!r} has {len(g)} elements, result has {m} columns {names}",
                        )
                        return
                    if not all(same_value(x, y) for x, y in zip(g, w)):
                        ctx.fail(f"C05|wrong-value|{op}|tuple", f"got {g!r} want {w!r}")
                        return

        for op in case["ops"]:
            rows, idx = state["rows"], state["idx"]
            n = len(rows)
            kind = op[0]
            try:
                if kind == "one":
                    got = cur.fetchone()
                    if idx < n:
                        check_rows("fetchone", [got] if got is not None else [], [rows[idx]])
                        if 0 < idx or n > 1:
                            splits += 1
                    else:
                        ctx.cls("over-fetch")
                        if got is not None:
                            ctx.fail("C05|after-exhaustion|fetchone", f"returned {got!r} instead of None")
                    state["idx"] = min(n, idx + 1)
                elif kind in ("many", "many0"):
                    k = op[1] if kind == "many" else arraysize
                    if not isinstance(k, int) or k < 1:
                        raise InvalidCase()
                    got = cur.fetchmany(k) if kind == "many" else cur.fetchmany()
                    want = rows[idx : idx + k]
                    check_rows("fetchmany" if kind == "many" else "fetchmany-arraysize", got, want)
                    if want and len(want) < n:
                        splits += 1
                    if not want:
                        ctx.cls("over-fetch")
                    state["idx"] = min(n, idx + k)
                elif kind == "arraysize":
                    if not isinstance(op[1], int) or op[1] < 1:
                        raise InvalidCase()
                    arraysize = op[1]
                    cur.arraysize = arraysize
                    if cur.arraysize != arraysize:
                        ctx.fail("C05|arraysize|not-kept", "")
                    ctx.cls("arraysize-change")
                elif kind == "all":
                    got = cur.fetchall()
                    check_rows("fetchall", got, rows[idx:])
                    if not rows[idx:]:
                        ctx.cls("over-fetch")
                    state["idx"] = n
                elif kind == "pandas":
                    df = cur.fetch_pandas_all()
                    m = len(state["names"])
                    if df.shape != (n, m):
                        ctx.fail("C05|pandas|shape", f"shape {df.shape}, want {(n, m)}")
                    elif list(df.columns) != state["names"]:
                        ctx.fail("C05|pandas|columns", f"{list(df.columns)} vs {state['names']}")
                    else:
                        for i in range(n):
                            for j in range(m):
                                w = rows[i][j]
                                g = df.iloc[i, j]
                                if w is None:
                                    ok = g is None or g != g or str(g) in ("NaT", "<NA>")
                                elif isinstance(w, dt.date):
                                    ok = str(g)[:10] == w.isoformat()
                                else:
                                    ok = bool(g == w)
                                if not ok:
                                    ctx.fail("C05|pandas|wrong-value", f"cell {i},{j}: {g!r} want {w!r}")
                                    break
                    ctx.cls("pandas")
                elif kind == "rowcount":
                    want_rc = n if state.get("rowcount") is None else state["rowcount"]
                    if cur.rowcount != want_rc:
                        ctx.fail("C05|rowcount|wrong-count", f"rowcount {cur.rowcount}, want {want_rc} (result has {n} rows)")
                elif kind == "desc":
                    d = cur.description
                    if [c.name for c in d] != state["names"]:
                        ctx.fail("C05|description|names", f"{[c.name for c in d]} vs {state['names']}")
                    ctx.cls("description-mid-fetch" if 0 < idx < n else "description")
                elif kind == "reexec":
                    if 0 < idx < n:
                        ctx.cls("re-execute-mid-result")
                    next_result()
                else:
                    raise InvalidCase()
            except InvalidCase:
                raise
            except Exception as e:
                ctx.fail(f"C05|raises|{kind}|{etype_name(e)}", f"{e}")
                return
        if is_dict:
            ctx.cls("dict-cursor")
        ctx.nontrivial = splits >= 2 or "repeated-name" in ctx.classes
    finally:
        close_instance(fs)


PROP = Prop(
    id="C05",
    facets=[
        Facet(
            name="fetch_sequences",
            strategy=_case,
            run=run_fetch,
            rule=(
                "Hypothesis draws 1-3 result shapes (0-12/30 rows x 1-5 typed columns, column names drawn with "
                "replacement from a pool of unquoted/quoted/spaced names so repeats are frequent), tuple or dict cursor, "
                "0-2 fetches before any execute and 1-12 fetch ops (fetchone, fetchmany(k), fetchmany() under arraysize, "
                "arraysize=k, fetchall, fetch_pandas_all, rowcount, description, re-execute). Each result is the SELECT over the rows or, one time "
                "in three, the status row of a zero-row DELETE, an UPDATE, an INSERT, a DDL statement or a nop_regexes match run on the same "
                "cursor (so positions and counts of the previous result must not leak). Oracle: a list and an index. "
                "Non-trivial: the fetch sequence split a result in >=2 non-empty pieces, or the projection repeats a name."
            ),
            quick=500,
            thorough=6000,
            budget_quick=50,
        )
    ],
    assumptions=[
        "result rows are produced through fakesnow SELECT ... ORDER BY rid over a table filled by literal INSERT",
        "value types limited to int/str/float/bool/date here (type fidelity is C01's subject)",
        "fetchmany(k) only for k>=1 as the property states",
    ],
)
