"""C13 — transactions are atomic, isolated between connections, and sticky to theirs."""

from __future__ import annotations

from hypothesis import strategies as st

from vf.engine import Ctx, Facet, InvalidCase, Prop
from vf.util import close_instance, new_instance, run

NCONN = 3


def _in_thread(fn):
    """Run fn on a fresh thread and wait for it (so the history stays a single statement-level interleaving)."""
    import threading

    box: list = []

    def work():
        try:
            box.append((True, fn()))
        except BaseException as e:  # noqa: BLE001 - handed back to the caller
            box.append((False, e))

    t = threading.Thread(target=work)
    t.start()
    t.join()
    ok, v = box[0]
    if ok:
        return v
    raise v


class _ThreadCursor:
    """A cursor obtained with conn.cursor() on a worker thread (as a worker handed the connection would) and only ever used there."""

    def __init__(self, conn):
        self._conn, self._c = conn, None

    def _cur(self):
        if self._c is None:
            self._c = _in_thread(self._conn.cursor)
        return self._c

    def execute(self, *a, **k):
        c = self._cur()
        return _in_thread(lambda: c.execute(*a, **k))

    def executemany(self, *a, **k):
        c = self._cur()
        return _in_thread(lambda: c.executemany(*a, **k))

    def fetchall(self):
        return _in_thread(self._cur().fetchall)

    @property
    def rowcount(self):
        return self._cur().rowcount
_ci = st.integers(0, NCONN - 1)
_cu = st.integers(0, 2)  # 2: a cursor of the same connection that is opened and used on another thread
_slot = st.integers(0, 2)

_op = st.one_of(
    st.tuples(st.just("begin"), _ci).map(list),
    st.tuples(st.just("begin"), _ci).map(list),
    st.tuples(st.just("insert"), _ci, _cu, _slot, st.integers(0, 99)).map(list),
    st.tuples(st.just("insert"), _ci, _cu, _slot, st.integers(0, 99)).map(list),
    st.tuples(st.just("update"), _ci, _cu, _slot, st.integers(100, 199)).map(list),
    st.tuples(st.just("delete"), _ci, _cu, _slot).map(list),
    st.tuples(st.just("fail"), _ci, _cu, st.sampled_from(["missing-table", "missing-column", "missing-function"])).map(list),
    st.tuples(st.just("select"), _ci, _cu).map(list),
    st.tuples(st.just("select"), _ci, _cu).map(list),
    st.tuples(st.just("commit"), _ci, st.sampled_from(["sql", "api"])).map(list),
    st.tuples(st.just("commit"), _ci, st.sampled_from(["sql", "api"])).map(list),
    st.tuples(st.just("rollback"), _ci, st.sampled_from(["sql", "api"])).map(list),
)


@st.composite
def _case(draw, tier):
    """State-aware drawing (all choices by Hypothesis): keeps transactions open long enough to overlap."""
    n = draw(st.integers(4, 30 if tier == "quick" else 60))
    open_ = [False] * NCONN
    ops = []
    closed_one = False
    for _ in range(n):
        i = draw(_ci)
        if not open_[i]:
            kind = draw(st.sampled_from(["begin", "begin", "begin", "write", "select", "commit", "rollback", "fail"]))
        else:
            kind = draw(st.sampled_from(["write", "write", "write", "many", "select", "select", "fail", "commit", "rollback", "begin", "close-rarely"]))
        if kind == "close-rarely":
            # a connection closed with its transaction still open (at most one per history, and not often)
            if closed_one or draw(st.integers(0, 2)):
                kind = "write"
            else:
                closed_one = True
                ops.append(["close", i])
                open_[i] = False
                continue
        if kind == "many":
            ops.append(["insert_many", i, draw(_cu), draw(st.lists(_slot, min_size=1, max_size=3, unique=True)), draw(st.integers(0, 99))])
            continue
        if kind == "begin":
            ops.append(["begin", i])
            open_[i] = True
        elif kind == "write":
            w = draw(st.sampled_from(["insert", "insert", "update", "delete"]))
            if w == "insert":
                ops.append(["insert", i, draw(_cu), draw(_slot), draw(st.integers(0, 99))])
            elif w == "update":
                ops.append(["update", i, draw(_cu), draw(_slot), draw(st.integers(100, 199))])
            else:
                ops.append(["delete", i, draw(_cu), draw(_slot)])
        elif kind == "select":
            ops.append(["select", i, draw(_cu)])
        elif kind == "fail":
            ops.append(["fail", i, draw(_cu), draw(st.sampled_from(["missing-table", "missing-column", "missing-function"]))])
        else:
            ops.append([kind, i, draw(st.sampled_from(["sql", "api"]))])
            open_[i] = False
    return {"ops": ops, "context": draw(st.sampled_from(["connect-arguments", "connect-arguments", "use-after-connect"]))}


def run_tx(case, ctx: Ctx) -> None:
    fs = new_instance()
    try:
        how = case.get("context", "connect-arguments")
        if how == "connect-arguments":
            conns = [fs.connect("db1", "s1") for _ in range(NCONN)]
        elif how == "use-after-connect":
            # sessions opened without any context that get theirs from USE: still one transaction scope per connection
            fs.connect("db1", "s1")
            conns = [fs.connect() for _ in range(NCONN)]
            for c in conns:
                c.cursor().execute("USE SCHEMA DB1.S1")
        else:
            raise InvalidCase()
        ctx.cls(f"context:{how}")
        curs = [[c.cursor(), c.cursor(), _ThreadCursor(c)] for c in conns]
        curs[0][0].execute("CREATE TABLE SH (K INT, V INT, OWNER INT)")
        curs[0][0].execute("CREATE TABLE EXISTING (X INT)")
        # per owner: committed partition states over time; pending view; tx flag; history index at BEGIN
        hist: list[list[dict]] = [[{}] for _ in range(NCONN)]
        pending: list[dict | None] = [None] * NCONN
        begin_idx: list[list[int] | None] = [None] * NCONN
        wrote_in_tx = [False] * NCONN
        closed = [False] * NCONN
        overlap_seen = third_party_between = False
        first_commit_of_overlap = False

        def view_own(i: int) -> dict:
            return pending[i] if pending[i] is not None else hist[i][-1]

        def check_read(i: int, cu: int, label: str) -> None:
            nonlocal third_party_between
            o = run(curs[i][cu], "SELECT K, V, OWNER FROM SH ORDER BY K")
            if not o.ok:
                ctx.fail(f"C13|read|raises|{o.etype}", f"conn {i}: {o}")
                return
            by_owner: dict[int, dict] = {j: {} for j in range(NCONN)}
            for k, v, owner in o.rows:
                if owner not in by_owner or k in by_owner[owner]:
                    ctx.fail("C13|read|duplicate-or-foreign-row", f"{o.rows!r}")
                    return
                by_owner[owner][k] = v
            for j in range(NCONN):
                got = by_owner[j]
                if j == i:
                    if got != view_own(i):
                        ctx.fail(
                            f"C13|own-writes|{'in-tx' if pending[i] is not None else 'autocommit'}|cursor{cu}",
                            f"{label}: conn {i} sees own rows {got}, model {view_own(i)}",
                        )
                    continue
                if pending[i] is None:
                    allowed = [hist[j][-1]]
                else:
                    allowed = hist[j][begin_idx[i][j] :]
                if got not in allowed:
                    unc = pending[j] is not None and got == pending[j]
                    partial = not unc
                    mode = "uncommitted-visible" if unc else ("stale-or-torn" if partial else "?")
                    ctx.fail(
                        f"C13|isolation|{mode}|reader-{'in-tx' if pending[i] is not None else 'autocommit'}",
                        f"{label}: conn {i} sees rows of conn {j} = {got}; committed states allowed {allowed}; pending of {j} = {pending[j]}",
                    )
            if first_commit_of_overlap and pending[i] is None:
                third_party_between = True

        for op in case["ops"]:
            kind, i = op[0], op[1]
            if not isinstance(i, int) or not 0 <= i < NCONN:
                raise InvalidCase()
            label = repr(op)
            if kind in ("insert", "update", "delete", "fail", "select", "insert_many"):
                if op[2] not in (0, 1, 2):
                    raise InvalidCase()
                if op[2] == 2:
                    ctx.cls("other-thread-cursor" + ("-in-transaction" if pending[i] is not None else ""))
            if closed[i]:
                continue
            if kind == "close":
                was_open = pending[i] is not None
                try:
                    conns[i].close()
                except Exception as e:
                    ctx.fail(f"C13|close|raises|{type(e).__name__}", str(e))
                    return
                closed[i] = True
                # never committed, so never visible
                pending[i] = None
                begin_idx[i] = None
                ctx.cls("close-with-open-transaction" if was_open else "close")
                for r in range(NCONN):
                    if not closed[r]:
                        check_read(r, 0, label + f" then conn {r} reads")
            elif kind == "insert_many":
                cu, slots, val = op[2], op[3], op[4]
                if not isinstance(slots, list) or not slots or any(not isinstance(x, int) or not 0 <= x <= 2 for x in slots) or len(set(slots)) != len(slots):
                    raise InvalidCase()
                v = dict(view_own(i))
                keys = [sl * NCONN + i for sl in slots if sl * NCONN + i not in v]
                if not keys:
                    continue
                try:
                    curs[i][cu].executemany("INSERT INTO SH VALUES (%s, %s, %s)", [(k_, int(val), i) for k_ in keys])
                except Exception as e:
                    ctx.fail(f"C13|executemany|raises|{type(e).__name__}|{'in-tx' if pending[i] is not None else 'autocommit'}", f"{label}: {e}")
                    return
                for k_ in keys:
                    v[k_] = int(val)
                if pending[i] is not None:
                    pending[i] = v
                    wrote_in_tx[i] = True
                    ctx.cls("executemany-in-transaction")
                else:
                    hist[i].append(v)
                # a batch is DML like any other: it neither ends nor escapes the open transaction
                for r in range(NCONN):
                    if not closed[r]:
                        check_read(r, 0, label + f" then conn {r} reads")
            elif kind == "begin":
                if pending[i] is not None:
                    continue  # BEGIN only when none is open (input domain)
                o = run(curs[i][0], "BEGIN")
                if not o.ok:
                    ctx.fail(f"C13|begin|raises|{o.etype}", f"{o}")
                    return
                pending[i] = dict(hist[i][-1])
                begin_idx[i] = [len(hist[j]) - 1 for j in range(NCONN)]
                wrote_in_tx[i] = False
                ctx.cls("begin")
            elif kind in ("insert", "update", "delete"):
                cu, slot = op[2], op[3]
                key = slot * NCONN + i
                cur = curs[i][cu]
                v = dict(view_own(i))
                if kind == "insert":
                    if key in v:
                        continue
                    sql, cnt = f"INSERT INTO SH VALUES ({key}, {int(op[4])}, {i})", 1
                    v[key] = int(op[4])
                elif kind == "update":
                    sql, cnt = f"UPDATE SH SET V = {int(op[4])} WHERE K = {key}", int(key in v)
                    if key in v:
                        v[key] = int(op[4])
                else:
                    sql, cnt = f"DELETE FROM SH WHERE K = {key}", int(key in v)
                    v.pop(key, None)
                o = run(cur, sql)
                if not o.ok:
                    ctx.fail(f"C13|write|raises|{o.etype}|{'in-tx' if pending[i] is not None else 'autocommit'}", f"{label} {sql}: {o}")
                    return
                if o.rows[0][0] != cnt:
                    ctx.fail("C13|write|wrong-count", f"{sql}: {o.rows} want {cnt}")
                if pending[i] is not None:
                    pending[i] = v
                    wrote_in_tx[i] = True
                    if sum(1 for j in range(NCONN) if pending[j] is not None and wrote_in_tx[j]) >= 2:
                        overlap_seen = True
                        ctx.cls("overlapping-transactions")
                else:
                    hist[i].append(v)
                if op[2] == 1:
                    ctx.cls("second-cursor-write")
            elif kind == "fail":
                cu, which = op[2], op[3]
                sql = {
                    "missing-table": "SELECT * FROM NO_SUCH_TABLE",
                    "missing-column": "SELECT NOPE FROM SH",
                    "missing-function": "SELECT NO_SUCH_FN(K) FROM SH",
                }.get(which)
                if sql is None:
                    raise InvalidCase()
                o = run(curs[i][cu], sql)
                if o.ok:
                    ctx.fail("C13|failing-statement|succeeded", sql)
                if pending[i] is not None:
                    ctx.cls("failure-inside-transaction")
                # pending writes stay in place: checked by the read below
                check_read(i, cu, label + " then read")
            elif kind == "select":
                check_read(i, op[2], label)
            elif kind in ("commit", "rollback"):
                via = op[2]
                was_open = pending[i] is not None
                if via == "api":
                    try:
                        (conns[i].commit if kind == "commit" else conns[i].rollback)()
                        o = None
                    except Exception as e:
                        ctx.fail(f"C13|{kind}|api-raises|{'open' if was_open else 'noop'}|{type(e).__name__}", str(e))
                        return
                else:
                    o = run(curs[i][0], kind.upper(), fetch=False)
                    if not o.ok:
                        ctx.fail(f"C13|{kind}|raises|{'open' if was_open else 'noop'}|{o.etype}", f"{o}")
                        return
                    if not was_open:
                        try:
                            rows = curs[i][0].fetchall()
                        except Exception as e:
                            rows = f"fetchall raised {type(e).__name__}"
                        if rows != [("Statement executed successfully.",)]:
                            ctx.fail(f"C13|{kind}|noop-status", f"{rows!r}")
                if not was_open:
                    ctx.cls(f"{kind}-noop")
                else:
                    if kind == "commit":
                        hist[i].append(dict(pending[i]))
                        if overlap_seen and any(pending[j] is not None and wrote_in_tx[j] for j in range(NCONN) if j != i):
                            first_commit_of_overlap = True
                        ctx.cls("commit")
                    else:
                        ctx.cls("rollback")
                    pending[i] = None
                    begin_idx[i] = None
                # everyone looks after every commit/rollback
                for r in range(NCONN):
                    if not closed[r]:
                        check_read(r, 0, label + f" then conn {r} reads")
            else:
                raise InvalidCase()
        ctx.nontrivial = overlap_seen and third_party_between
    finally:
        close_instance(fs)


PROP = Prop(
    id="C13",
    facets=[
        Facet(
            name="transaction_histories",
            strategy=_case,
            run=run_tx,
            rule=(
                "Hypothesis draws histories of 4-30/60 statements over 3 connections x 2 cursors of one instance: BEGIN (only when none is "
                "open), INSERT/UPDATE/DELETE of the connection's own keys (k mod 3), failing statements, SELECTs, COMMIT/ROLLBACK as SQL or "
                "conn.commit()/rollback() with or without an open transaction, executemany batches, and (rarely) a connection closed with its "
                "transaction still open. The single-threaded driver makes the history a statement-level "
                "interleaving. Oracle: committed store + per-connection pending set; a reader sees its own pending writes through each of its cursors (one of them opened and used on another thread), and of every other "
                "connection exactly one of the states that connection had committed (the latest if the reader is outside a transaction; any "
                "since its BEGIN otherwise) - never uncommitted or partial. Non-trivial: two transactions with writes overlap and a third "
                "party reads between their commits."
            ),
            quick=300,
            thorough=2500,
            budget_quick=50,
        )
    ],
    assumptions=[
        "non-conflicting writes (each connection writes only its own keys), as the property's quantifier says",
        "a reader inside a transaction may see any state the other connection committed since the reader's BEGIN (isolation level is not fixed by the property)",
        "the status row of COMMIT/ROLLBACK is asserted only when no transaction is open",
    ],
)
