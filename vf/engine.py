"""Facet runner: generated-input search, sharding, findings classification, shrinking, evidence.

A *facet* is (strategy producing a JSON case, run(case, ctx)).  ``run`` records violations on ``ctx``
(soft, the case continues) or raises ``Violation`` (hard).  Any other exception escaping ``run`` is a
harness error (exit 2), never a violation.
"""

from __future__ import annotations

import hashlib
import json
import os
import sys
import time
import traceback
from collections import Counter
from concurrent.futures import ProcessPoolExecutor
from dataclasses import dataclass, field
from typing import Any, Callable

HERE = os.path.dirname(os.path.dirname(os.path.abspath(__file__)))


class Violation(Exception):
    def __init__(self, signature: str, detail: str = ""):
        super().__init__(f"{signature} :: {detail}")
        self.signature = signature
        self.detail = detail


class Unsupported(Exception):
    """The code under test explicitly rejected the input (counted, not failed)."""


class InvalidCase(Exception):
    """The case is outside the facet's input domain (only arises while shrinking / replaying)."""


class Ctx:
    def __init__(self) -> None:
        self.violations: list[tuple[str, str]] = []
        self.classes: set[str] = set()
        self.nontrivial = False
        self.rejected = 0
        self.excluded = 0
        self.invalid = False

    def fail(self, signature: str, detail: str = "") -> None:
        self.violations.append((signature, str(detail)[:2000]))

    def cls(self, *names: str) -> None:
        self.classes.update(names)

    def check(self, cond: bool, signature: str, detail: str = "") -> bool:
        if not cond:
            self.fail(signature, detail)
        return bool(cond)


@dataclass
class Facet:
    name: str
    strategy: Callable[[str], Any]  # tier -> hypothesis strategy of JSON cases
    run: Callable[[Any, Ctx], None]
    rule: str
    quick: int = 200  # examples per shard
    thorough: int = 1000
    quick_shards: int = 8
    thorough_shards: int = 16
    budget_quick: float = 60.0  # seconds per shard
    budget_thorough: float = 600.0
    # False for facets whose outcome depends on real thread timing: there an observation that does not repeat is still a violation
    deterministic: bool = True
    # optional: a finite enumeration instead of a strategy: tier -> list of cases
    enumerate: Callable[[str], list] | None = None
    selftest: Callable[[], None] | None = None


@dataclass
class Prop:
    id: str
    facets: list[Facet]
    level: str = "exploration"
    assumptions: list[str] = field(default_factory=list)
    selftest: Callable[[], None] | None = None


# ---------------------------------------------------------------------------------------------


def canon(case: Any) -> str:
    return json.dumps(case, sort_keys=True, separators=(",", ":"), default=str)


def case_hash(case: Any) -> int:
    return int.from_bytes(hashlib.sha1(canon(case).encode()).digest()[:8], "big")


def derive_seed(seed: int, *parts: Any) -> int:
    h = hashlib.sha256(repr((seed, *parts)).encode()).digest()
    return int.from_bytes(h[:8], "big")


def load_prop(prop_id: str) -> Prop:
    import importlib

    mod = importlib.import_module(f"vf.props.{prop_id.lower()}")
    return mod.PROP


def _engine_errors() -> tuple:
    import duckdb
    import snowflake.connector.errors

    return (snowflake.connector.errors.Error, duckdb.Error)


def exec_case(facet: Facet, case: Any, prop_id: str = "") -> Ctx:
    ctx = Ctx()
    try:
        facet.run(case, ctx)
    except Violation as v:
        ctx.fail(v.signature, v.detail)
    except Unsupported:
        ctx.rejected += 1
    except _engine_errors() as e:
        # A statement the facet runs unguarded (set-up, bookkeeping) because it always succeeds on the reference tree was refused by
        # the code under test.  That is the tree's doing, not the harness': report it as a violation of the property being checked
        # rather than as a harness error (Python-level errors of the harness itself still end the check with exit 2).
        import traceback

        tb = traceback.extract_tb(e.__traceback__)
        here = next((f"{os.path.basename(fr.filename)}:{fr.lineno}" for fr in tb if "/vf/props/" in fr.filename), "?")
        ctx.fail(
            f"{prop_id or 'C??'}|unguarded-statement-raises|{type(e).__module__}.{type(e).__name__}|{facet.name}",
            f"a statement the harness expects to succeed (at {here}) raised {type(e).__name__}: {str(e)[:400]}",
        )
    except InvalidCase:
        # outside the facet's input domain: not executed, counted (a generator that does this often shows up in the evidence)
        ctx.violations.clear()
        ctx.nontrivial = False
        ctx.invalid = True
    return ctx


# ---------------------------------------------------------------------------------------------
# worker


def run_shard(args: tuple) -> dict:
    prop_id, facet_name, tier, seed, shard, n_examples, budget, enum_slice = args
    from vf import findings

    prop = load_prop(prop_id)
    facet = next(f for f in prop.facets if f.name == facet_name)
    known = findings.Known(prop_id)

    st = {
        "facet": facet_name,
        "shard": shard,
        "evaluations": 0,
        "nontrivial": set(),
        "classes": Counter(),
        "known_hits": Counter(),
        "unknown": {},  # sig -> (size, case, detail)
        "rejected": 0,
        "excluded": 0,
        "samples": [],
        "largest": None,
        "budget_exhausted": False,
        "error": None,
    }
    t0 = time.time()

    def one(case: Any) -> None:
        if time.time() - t0 > budget:
            st["budget_exhausted"] = True
            return
        ctx = exec_case(facet, case, prop_id)
        if ctx.invalid:
            st["invalid"] = st.get("invalid", 0) + 1
            return
        st["evaluations"] += 1
        st["rejected"] += ctx.rejected
        st["excluded"] += ctx.excluded
        for c in ctx.classes:
            st["classes"][c] += 1
        if ctx.nontrivial:
            st["nontrivial"].add(case_hash(case))
        n = st["evaluations"]
        size = len(canon(case))
        if n <= 2 or (n & (n - 1)) == 0:  # 1,2,4,8,... evenly thinning
            if len(st["samples"]) < 12:
                st["samples"].append(case)
        if st["largest"] is None or size > st["largest"][0]:
            st["largest"] = (size, case)
        for sig, detail in ctx.violations:
            if known.matches(sig):
                st["known_hits"][sig] += 1
            else:
                prev = st["unknown"].get(sig)
                if prev is None or size < prev[0]:
                    st["unknown"][sig] = (size, case, detail)

    try:
        if enum_slice is not None:
            import itertools

            lo, step = enum_slice
            for case in itertools.islice(facet.enumerate(tier), lo, None, step):  # type: ignore[misc]
                one(case)
                if st["budget_exhausted"]:
                    break
        else:
            import hypothesis
            from hypothesis import HealthCheck, Phase, given, settings

            strat = facet.strategy(tier)

            @hypothesis.seed(derive_seed(seed, prop_id, facet_name, shard))
            @settings(
                max_examples=n_examples,
                database=None,
                deadline=None,
                derandomize=False,
                report_multiple_bugs=False,
                print_blob=False,
                phases=[Phase.generate],
                suppress_health_check=[HealthCheck.too_slow, HealthCheck.data_too_large, HealthCheck.large_base_example],
            )
            @given(strat)
            def t(case: Any) -> None:
                one(case)

            t()
    except Exception:  # harness error
        st["error"] = traceback.format_exc()
    st["wall_s"] = time.time() - t0
    st["nontrivial"] = list(st["nontrivial"])
    st["classes"] = dict(st["classes"])
    st["known_hits"] = dict(st["known_hits"])
    return st


# ---------------------------------------------------------------------------------------------
# generic JSON shrinker (deterministic, bounded), keeps the violation signature fixed


def _paths(node: Any, prefix: tuple = ()):  # yield paths to every container/leaf
    yield prefix, node
    if isinstance(node, list):
        for i, v in enumerate(node):
            yield from _paths(v, prefix + (i,))
    elif isinstance(node, dict):
        for k, v in node.items():
            yield from _paths(v, prefix + (k,))


def _get(root: Any, path: tuple) -> Any:
    for p in path:
        root = root[p]
    return root


def _replace(root: Any, path: tuple, value: Any) -> Any:
    if not path:
        return value
    root = json.loads(json.dumps(root))
    parent = _get(root, path[:-1])
    parent[path[-1]] = value
    return root


def _candidates(root: Any):
    items = list(_paths(root))
    # lists first: drop chunks / single elements
    for path, node in items:
        if isinstance(node, list) and node:
            n = len(node)
            if n > 3:
                yield _replace(root, path, node[: n // 2])
                yield _replace(root, path, node[n // 2 :])
            for i in range(n - 1, -1, -1):
                yield _replace(root, path, node[:i] + node[i + 1 :])
    for path, node in items:
        if isinstance(node, str) and node and not (path and isinstance(path[-1], str) and path[-1].startswith("_")):
            yield _replace(root, path, "")
            if len(node) > 1:
                yield _replace(root, path, node[: len(node) // 2])
                yield _replace(root, path, node[len(node) // 2 :])
                for i in range(min(len(node), 12)):
                    yield _replace(root, path, node[:i] + node[i + 1 :])
            if node != "a":
                yield _replace(root, path, "a")
        elif isinstance(node, bool):
            if node:
                yield _replace(root, path, False)
        elif isinstance(node, int) and node not in (0,):
            yield _replace(root, path, 0)
            if abs(node) > 1:
                yield _replace(root, path, node // 2 if node > 0 else -((-node) // 2))
                yield _replace(root, path, node - 1 if node > 0 else node + 1)
        elif isinstance(node, float) and node != 0.0:
            yield _replace(root, path, 0.0)
            yield _replace(root, path, float(int(node)))
        elif isinstance(node, dict) and node and not any(k.startswith("$") for k in node):
            for k in list(node):
                if node[k] is not None and not isinstance(node[k], (list, dict)):
                    pass
            # optional keys (value None allowed) are simplified by setting None
            for k in list(node):
                if node[k] is not None and k.endswith("?"):
                    yield _replace(root, path + (k,), None)


def shrink(facet: Facet, case: Any, signature: str, budget_s: float, max_evals: int = 4000) -> tuple[Any, str, int]:
    t0 = time.time()
    evals = 0
    best = case
    best_detail = ""

    def fails(c: Any) -> str | None:
        nonlocal evals
        evals += 1
        try:
            ctx = exec_case(facet, c, signature.split("|")[0])
        except Exception:
            return None
        for sig, detail in ctx.violations:
            if sig == signature:
                return detail or " "
        return None

    d = fails(best)
    for _ in range(2):
        if d is None:
            d = fails(best)
    if d is None:
        return case, "(unreproduced: three immediate re-runs of the same case did not show it)", evals
    best_detail = d
    improved = True
    while improved and time.time() - t0 < budget_s and evals < max_evals:
        improved = False
        seen = set()
        for cand in _candidates(best):
            if time.time() - t0 > budget_s or evals >= max_evals:
                break
            key = canon(cand)
            cb = canon(best)
            if key in seen or (len(key), key) >= (len(cb), cb):
                continue
            seen.add(key)
            d = fails(cand)
            if d is not None:
                best, best_detail = cand, d
                improved = True
                break
    return best, best_detail, evals


# ---------------------------------------------------------------------------------------------
# parent


def write_replay(prop_id: str, facet: str, seed: int, tier: str, case: Any, signature: str, detail: str) -> str:
    os.makedirs(os.path.join(HERE, "replays"), exist_ok=True)
    h = hashlib.sha1((signature + canon(case)).encode()).hexdigest()[:12]
    path = os.path.join("replays", f"{prop_id}-{facet}-{h}.json")
    with open(os.path.join(HERE, path), "w") as f:
        json.dump(
            {"property": prop_id, "facet": facet, "seed": seed, "tier": tier, "case": case, "signature": signature, "detail": detail},
            f,
            indent=1,
            sort_keys=True,
            default=str,
        )
    return path


def run_check(prop_id: str, tier: str) -> int:
    from vf import findings

    t0 = time.time()
    seed = int(os.environ.get("VERIF_SEED", "1") or "1")
    prop = load_prop(prop_id)
    known = findings.Known(prop_id)
    out_lines: list[str] = []
    violations = 0
    harness_errors: list[str] = []

    # 0. self tests of reference models: a failure is a harness error
    try:
        if prop.selftest:
            prop.selftest()
        for f in prop.facets:
            if f.selftest:
                f.selftest()
    except Exception:
        print("HARNESS-ERROR: reference self-test failed", file=sys.stderr)
        traceback.print_exc()
        return 2

    facets = {f.name: f for f in prop.facets}

    # 1. replay listed findings / fixed regressions
    finding_notes = []
    for e in known.entries:
        repro = e.get("repro")
        if not repro:
            continue
        facet = facets.get(repro["facet"])
        if facet is None:
            harness_errors.append(f"finding {e.get('signature')} names unknown facet {repro['facet']}")
            continue
        try:
            ctx = exec_case(facet, repro["case"], prop_id)
        except Exception:
            harness_errors.append(f"replay of finding {e.get('signature')} crashed:\n{traceback.format_exc()}")
            continue
        sigs = [s for s, _ in ctx.violations]
        if e["status"] == "open":
            hit = [s for s in sigs if findings.entry_matches(e, s)]
            if hit:
                print(f"KNOWN-FINDING: property={prop_id} {e['what']} [{e.get('signature') or e.get('signature_regex')}]")
                finding_notes.append({"signature": e.get("signature") or e.get("signature_regex"), "reproduces": True})
            else:
                finding_notes.append({"signature": e.get("signature") or e.get("signature_regex"), "reproduces": False})
            for s, d in ctx.violations:
                if not known.matches(s):
                    path = write_replay(prop_id, facet.name, seed, tier, repro["case"], s, d)
                    print(f"VIOLATION property={prop_id} replay={path}")
                    print(f"  signature: {s}\n  detail: {d[:500]}")
                    violations += 1
        else:  # fixed: regression case, suppresses nothing
            for s, d in ctx.violations:
                if not known.matches(s):
                    path = write_replay(prop_id, facet.name, seed, tier, repro["case"], s, d)
                    print(f"VIOLATION property={prop_id} replay={path}")
                    print(f"  signature: {s} (regression of a fixed finding)\n  detail: {d[:500]}")
                    violations += 1

    # 2. search
    jobs = []
    for f in prop.facets:
        shards = f.quick_shards if tier == "quick" else f.thorough_shards
        n = f.quick if tier == "quick" else f.thorough
        budget = f.budget_quick if tier == "quick" else f.budget_thorough
        for s in range(shards):
            enum_slice = (s, shards) if f.enumerate else None
            jobs.append((prop_id, f.name, tier, seed, s, n, budget, enum_slice))
    workers = min(len(jobs), int(os.environ.get("VERIF_WORKERS", "16")))
    results = []
    if os.environ.get("VERIF_INPROC") == "1":
        results = [run_shard(j) for j in jobs]
    else:
        import multiprocessing as mp

        with ProcessPoolExecutor(max_workers=workers, mp_context=mp.get_context("spawn")) as ex:
            results = list(ex.map(run_shard, jobs))

    # 3. merge
    evaluations = 0
    nontrivial: set[int] = set()
    classes: Counter = Counter()
    known_hits: Counter = Counter()
    per_facet: dict[str, dict] = {}
    unknown: dict[tuple[str, str], tuple] = {}
    samples = []
    rejected = excluded = 0
    budget_exhausted = False
    for r in results:
        if r["error"]:
            harness_errors.append(f"[{r['facet']} shard {r['shard']}]\n{r['error']}")
        evaluations += r["evaluations"]
        nontrivial.update(r["nontrivial"])
        classes.update(r["classes"])
        known_hits.update(r["known_hits"])
        rejected += r["rejected"]
        excluded += r["excluded"] + r.get("invalid", 0)
        budget_exhausted |= r["budget_exhausted"]
        pf = per_facet.setdefault(r["facet"], {"evaluations": 0, "nontrivial": 0, "wall_s": 0.0})
        pf["evaluations"] += r["evaluations"]
        pf["nontrivial"] += len(r["nontrivial"])
        pf["wall_s"] = round(max(pf["wall_s"], r["wall_s"]), 2)
        if r["shard"] == 0:
            for c in r["samples"][:4]:
                samples.append({"facet": r["facet"], "case": c})
            if r["largest"]:
                samples.append({"facet": r["facet"], "largest": True, "case": r["largest"][1]})
        for sig, (size, case, detail) in r["unknown"].items():
            key = (r["facet"], sig)
            if key not in unknown or size < unknown[key][0]:
                unknown[key] = (size, case, detail)

    if os.environ.get("VERIF_DUMP_UNKNOWN"):  # triage aid: every unknown signature with its (unshrunk) smallest case
        with open(os.environ["VERIF_DUMP_UNKNOWN"], "w") as f:
            json.dump([{"facet": k[0], "signature": k[1], "detail": v[2], "case": v[1]} for k, v in sorted(unknown.items())], f, indent=1, default=str)
    # 4. shrink + report unknown violations
    shrink_budget = 25.0 if tier == "quick" else 120.0
    shrink_total = 90.0 if tier == "quick" else 600.0
    t_shrink = time.time()
    unreproduced: list = []
    for (facet_name, sig), (_size, case, detail) in sorted(unknown.items(), key=lambda kv: kv[0])[:8]:
        left = shrink_total - (time.time() - t_shrink)
        small, d2, _ = shrink(facets[facet_name], case, sig, max(1.0, min(shrink_budget, left)))
        if d2.startswith("(unreproduced") and facets[facet_name].deterministic:
            # A case of a deterministic facet is a pure function of the tree: an observation that three re-runs of the very same case
            # do not repeat came from outside the case (machine load, a transient I/O error), so it is not a demonstrated violation of
            # the property.  It is reported and kept in the evidence, and does not decide the verdict.
            path = write_replay(prop_id, facet_name, seed, tier, small, sig, d2 + " first seen as: " + detail)
            print(f"UNREPRODUCED property={prop_id} signature={sig} replay={path}\n  first seen as: {detail[:400]}")
            unreproduced.append({"facet": facet_name, "signature": sig, "first_seen": detail[:600]})
            continue
        if d2.startswith("(unreproduced"):
            d2 = d2 + " first seen as: " + detail
        path = write_replay(prop_id, facet_name, seed, tier, small, sig, d2 if d2.strip() else detail)
        print(f"VIOLATION property={prop_id} replay={path}")
        print(f"  signature: {sig}\n  detail: {(d2 if d2.strip() else detail)[:600]}")
        violations += 1
    if len(unknown) > 8:
        print(f"  (+{len(unknown) - 8} further distinct signatures not shrunk: {sorted(s for _, s in unknown)[8:]})")
        violations += len(unknown) - 8

    # 5. evidence
    ev = {
        "property_id": prop_id,
        "tier": tier,
        "seed": seed,
        "level": prop.level,
        "coverage": {
            "evaluations": evaluations,
            "distinct_nontrivial": len(nontrivial),
            "rule": " || ".join(f"[{f.name}] {f.rule}" for f in prop.facets),
            "samples": samples[:24],
            "per_facet": per_facet,
            "classes": dict(sorted(classes.items())),
            "known_hits": dict(known_hits),
            "listed_findings": finding_notes,
            "rejected_unsupported": rejected,
            "excluded_by_construction": excluded,
            "exhaustive": all(f.enumerate is not None for f in prop.facets) and not budget_exhausted,
            "budget_exhausted": budget_exhausted,
            "unknown_signatures": sorted(s for _, s in unknown),
            "unreproduced_observations": unreproduced,
        },
        "assumptions": prop.assumptions,
        "wall_s": round(time.time() - t0, 2),
        "violations": violations,
    }
    os.makedirs(os.path.join(HERE, "evidence"), exist_ok=True)
    with open(os.path.join(HERE, "evidence", f"{prop_id}.json"), "w") as f:
        json.dump(ev, f, indent=1, default=str)

    if harness_errors:
        print("HARNESS-ERROR:", file=sys.stderr)
        for h in harness_errors[:5]:
            print(h, file=sys.stderr)
        return 1 if violations else 2
    print(
        f"{prop_id} {tier} seed={seed}: {evaluations} cases, {len(nontrivial)} distinct non-trivial, "
        f"{sum(known_hits.values())} known-finding hits, {violations} violations, {ev['wall_s']}s"
    )
    return 1 if violations else 0


def run_replay(prop_id: str, path: str) -> int:
    from vf import findings

    prop = load_prop(prop_id)
    with open(path) as f:
        rep = json.load(f)
    facet = next(f for f in prop.facets if f.name == rep["facet"])
    known = findings.Known(prop_id)
    ctx = exec_case(facet, rep["case"], prop_id)
    if not ctx.violations:
        print(f"no violation: property={prop_id} replay={path}")
        return 0
    rc = 0
    seen_known: set[str] = set()
    for s, d in ctx.violations:
        if known.matches(s):
            if s not in seen_known:
                seen_known.add(s)
                print(f"KNOWN-FINDING: property={prop_id} {s}\n  detail: {d[:300]}")
        else:
            print(f"VIOLATION property={prop_id} replay={path}\n  signature: {s}\n  detail: {d[:800]}")
            rc = 1
    return rc
