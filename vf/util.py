"""Shared helpers: tagged JSON values, statement outcomes, engine-level state snapshot."""

from __future__ import annotations

import datetime as dt
import math
import struct
from decimal import Decimal
from typing import Any

import snowflake.connector
import snowflake.connector.errors

import duckdb

from fakesnow.instance import FakeSnow

# Every case builds fresh engine instances; DuckDB would start one worker thread per core for each of them,
# which only costs time here.  Thread count does not change SQL semantics.  (C19's free-running facet resets it.)
_orig_duck_connect = duckdb.connect
_DUCK_THREADS = int(__import__("os").environ.get("VERIF_DUCK_THREADS", "1"))


def _connect_few_threads(*a: Any, **k: Any) -> Any:
    if _DUCK_THREADS > 0 and "config" not in k:
        k["config"] = {"threads": _DUCK_THREADS}
    return _orig_duck_connect(*a, **k)


duckdb.connect = _connect_few_threads

import logging  # noqa: E402

logging.getLogger("sqlglot").setLevel(logging.ERROR)  # "Unsupported property ..." warnings of the generator are not our subject

# ------------------------------------------------------------------ tagged values


def enc(v: Any) -> Any:
    if v is None or isinstance(v, (bool, int, str)):
        return v
    if isinstance(v, float):
        if math.isfinite(v) and not (v == 0.0 and math.copysign(1, v) < 0):
            return v
        return {"$float": struct.pack(">d", v).hex()}
    if isinstance(v, Decimal):
        return {"$dec": str(v)}
    if isinstance(v, dt.datetime):
        return {"$tstz": v.isoformat()} if v.tzinfo else {"$ts": v.isoformat()}
    if isinstance(v, dt.date):
        return {"$date": v.isoformat()}
    if isinstance(v, dt.time):
        return {"$time": v.isoformat()}
    if isinstance(v, (bytes, bytearray)):
        return {"$bytes": bytes(v).hex()}
    if isinstance(v, (list, tuple)):
        return [enc(x) for x in v]
    if isinstance(v, dict):
        return {k: enc(x) for k, x in v.items()}
    raise TypeError(f"cannot encode {type(v)}")


def dec(v: Any) -> Any:
    if isinstance(v, list):
        return [dec(x) for x in v]
    if isinstance(v, dict):
        if len(v) == 1:
            (k, x), = v.items()
            if k == "$float":
                return struct.unpack(">d", bytes.fromhex(x))[0]
            if k == "$dec":
                return Decimal(x)
            if k == "$ts":
                return dt.datetime.fromisoformat(x)
            if k == "$tstz":
                return dt.datetime.fromisoformat(x)
            if k == "$date":
                return dt.date.fromisoformat(x)
            if k == "$time":
                return dt.time.fromisoformat(x)
            if k == "$bytes":
                return bytes.fromhex(x)
        return {k: dec(x) for k, x in v.items()}
    return v


def same_value(a: Any, b: Any) -> bool:
    """Equality with exact Python type; floats bit-identical (NaN == NaN); aware datetimes as instants."""
    if a is None or b is None:
        return a is None and b is None
    if isinstance(a, bool) or isinstance(b, bool):
        return isinstance(a, bool) and isinstance(b, bool) and a == b
    if isinstance(a, float) and isinstance(b, float):
        return struct.pack(">d", a) == struct.pack(">d", b) or (math.isnan(a) and math.isnan(b))
    if isinstance(a, dt.datetime) and isinstance(b, dt.datetime):
        if (a.tzinfo is None) != (b.tzinfo is None):
            return False
        return a == b
    if type(a) is not type(b):
        return False
    if isinstance(a, (list, tuple)):
        return len(a) == len(b) and all(same_value(x, y) for x, y in zip(a, b))
    return a == b


def same_rows(a: list, b: list) -> bool:
    return len(a) == len(b) and all(
        len(r) == len(s) and all(same_value(x, y) for x, y in zip(r, s)) for r, s in zip(a, b)
    )


# ------------------------------------------------------------------ independent literal renderer


def sql_str(s: str) -> str:
    """Snowflake single-quoted string constant: own quoting, shares no code with the connector/sqlglot."""
    out = []
    for ch in s:
        if ch == "'":
            out.append("''")
        elif ch == "\\":
            out.append("\\\\")
        elif ch == "\n":
            out.append("\\n")
        elif ch == "\r":
            out.append("\\r")
        elif ch == "\t":
            out.append("\\t")
        else:
            out.append(ch)
    return "'" + "".join(out) + "'"


def sql_lit(v: Any, typ: str | None = None) -> str:
    if v is None:
        return f"NULL::{typ}" if typ else "NULL"
    if isinstance(v, bool):
        return "TRUE" if v else "FALSE"
    if isinstance(v, int):
        return str(v)
    if isinstance(v, float):
        if math.isnan(v):
            return "'nan'::FLOAT"
        if math.isinf(v):
            return "'inf'::FLOAT" if v > 0 else "'-inf'::FLOAT"
        return repr(v) + "::FLOAT"
    if isinstance(v, Decimal):
        return format(v, "f")
    if isinstance(v, dt.datetime):
        return f"'{v.isoformat(sep=' ')}'::{typ or ('TIMESTAMP_TZ' if v.tzinfo else 'TIMESTAMP_NTZ')}"
    if isinstance(v, dt.date):
        return f"'{v.isoformat()}'::DATE"
    if isinstance(v, dt.time):
        return f"'{v.isoformat()}'::TIME"
    if isinstance(v, (bytes, bytearray)):
        return f"'{bytes(v).hex()}'::BINARY"
    if isinstance(v, str):
        return sql_str(v)
    raise TypeError(type(v))


# ------------------------------------------------------------------ outcomes


class Outcome:
    __slots__ = ("ok", "rows", "exc", "etype", "errno", "sqlstate", "msg", "rowcount")

    def __init__(self) -> None:
        self.ok = False
        self.rows = None
        self.exc = None
        self.etype = None
        self.errno = None
        self.sqlstate = None
        self.msg = None
        self.rowcount = None

    def err_key(self) -> tuple:
        return (self.etype, self.errno, self.sqlstate)

    def __repr__(self) -> str:
        if self.ok:
            return f"OK rows={self.rows!r} rowcount={self.rowcount}"
        return f"ERR {self.etype} errno={self.errno} sqlstate={self.sqlstate} msg={str(self.msg)[:200]!r}"


def etype_name(e: BaseException) -> str:
    t = type(e)
    return f"{t.__module__}.{t.__qualname__}"


def run(cur: Any, sql: str, params: Any = None, fetch: bool = True) -> Outcome:
    o = Outcome()
    try:
        if params is None:
            cur.execute(sql)
        else:
            cur.execute(sql, params)
        o.ok = True
        o.rowcount = cur.rowcount
        if fetch:
            o.rows = cur.fetchall()
    except Exception as e:  # classified by caller
        o.exc = e
        o.etype = etype_name(e)
        o.errno = getattr(e, "errno", None)
        o.sqlstate = getattr(e, "sqlstate", None)
        o.msg = getattr(e, "msg", None) or str(e)
    return o


def is_sf_error(o: Outcome) -> bool:
    return isinstance(o.exc, snowflake.connector.errors.Error)


def new_instance(**kw: Any) -> FakeSnow:
    return FakeSnow(**kw)


def close_instance(fs: FakeSnow) -> None:
    try:
        fs.duck_conn.close()
    except Exception:
        pass


# ------------------------------------------------------------------ engine-level snapshot


def snapshot(fs: FakeSnow, rows: bool = True, side: bool = True) -> dict:
    """State as seen by a fresh engine cursor: catalogs, schemas, objects, columns, rows, side tables."""
    c = fs.duck_conn.cursor()
    try:
        snap: dict = {}
        snap["schemas"] = sorted(
            c.execute(
                "select catalog_name, schema_name from information_schema.schemata "
                "where catalog_name not in ('system','temp')"
            ).fetchall()
        )
        tabs = sorted(
            c.execute(
                "select table_catalog, table_schema, table_name, table_type from information_schema.tables "
                "where table_catalog not in ('system','temp')"
            ).fetchall()
        )
        snap["tables"] = tabs
        snap["columns"] = sorted(
            c.execute(
                "select table_catalog, table_schema, table_name, ordinal_position, column_name, data_type, is_nullable "
                "from information_schema.columns where table_catalog not in ('system','temp') "
                "and not (table_schema = 'information_schema')"
            ).fetchall()
        )
        if rows:
            data = {}
            for cat, sch, name, typ in tabs:
                if sch == "information_schema" and not (side and name in ("_fs_tables_ext", "_fs_columns_ext")):
                    continue
                if sch in ("pg_catalog",):
                    continue
                try:
                    rs = c.execute(f'select * from "{cat}"."{sch}"."{name}"').fetchall()
                except Exception as e:  # a view over a dropped table etc.
                    rs = [("<unreadable>", type(e).__name__)]
                data[f"{cat}.{sch}.{name}"] = sorted(rs, key=repr)
            snap["rows"] = data
        return snap
    finally:
        c.close()


def diff_snap(a: dict, b: dict) -> str:
    out = []
    for k in sorted(set(a) | set(b)):
        if a.get(k) == b.get(k):
            continue
        if isinstance(a.get(k), dict) and isinstance(b.get(k), dict):
            for kk in sorted(set(a[k]) | set(b[k])):
                if a[k].get(kk) != b[k].get(kk):
                    out.append(f"{k}[{kk}]: {a[k].get(kk)!r} -> {b[k].get(kk)!r}")
        else:
            sa, sb = set(map(repr, a.get(k) or [])), set(map(repr, b.get(k) or []))
            out.append(f"{k}: -{sorted(sa - sb)} +{sorted(sb - sa)}")
    return "; ".join(out)[:1500]
