#!/venv/bin/python
"""Maintain known_findings.json by hand (never used at run time).
  tools_kf.py open  <replay.json> "<what fails>" "<where>" [signature_regex]
  tools_kf.py fixed <replay.json> <commit> "<what failed>" "<where>"
"""
import json, sys, os
HERE = os.path.dirname(os.path.abspath(__file__))
P = os.path.join(HERE, "known_findings.json")
kf = json.load(open(P))
mode, replay = sys.argv[1], json.load(open(sys.argv[2]))
e = {"property": replay["property"], "status": mode, "signature": replay["signature"]}
if mode == "open":
    e["what"] = sys.argv[3]; e["where"] = sys.argv[4]
    if len(sys.argv) > 5:
        e["signature_regex"] = sys.argv[5]; del e["signature"]
else:
    e["commit"] = sys.argv[3]; e["what"] = f"fixed: property={replay['property']} {sys.argv[3]} {sys.argv[4]}"; e["where"] = sys.argv[5]
e["repro"] = {"facet": replay["facet"], "case": replay["case"]}
e["example_detail"] = replay.get("detail", "")[:400]
kf = [k for k in kf if not (k["property"] == e["property"] and k.get("signature") == e.get("signature") and k.get("signature_regex") == e.get("signature_regex"))]
kf.append(e)
kf.sort(key=lambda k: (k["property"], k["status"], k.get("signature") or k.get("signature_regex")))
json.dump(kf, open(P, "w"), indent=1)
print("recorded", e["status"], e.get("signature") or e.get("signature_regex"))
