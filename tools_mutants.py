#!/venv/bin/python
"""Sensitivity sweep: apply each hand-made mutant of mutants.json to a scratch worktree of /repo, run the repo's
test suite on it (is the mutant test-green?) and the quick check of each property it is aimed at, from a scratch copy
of /verif (so /verif's evidence and replays are untouched).  Results go to mutants_results.json.

   tools_mutants.py [ids...] [--jobs N]
"""
import json, os, shutil, subprocess, sys, tempfile, concurrent.futures as cf

HERE = os.path.dirname(os.path.abspath(__file__))
DESELECT = ["--deselect", "tests/test_fakes.py::test_get_result_batches", "--deselect", "tests/test_fakes.py::test_get_result_batches_dict"]


def one(m):
    wt = tempfile.mkdtemp(prefix="vf-mut-", dir="/tmp"); os.rmdir(wt)
    vcopy = tempfile.mkdtemp(prefix="vf-mutv-", dir="/tmp")
    res = {"id": m["id"], "note": m["note"], "file": m["file"], "expect": m.get("expect", "caught")}
    subprocess.run(["git", "-C", "/repo", "worktree", "add", "--detach", "-q", wt, "HEAD"], check=True)
    try:
        p = os.path.join(wt, m["file"]); s = open(p).read()
        for old, new in m.get("edits") or [[m["old"], m["new"]]]:
            if old not in s:
                res["error"] = "old text not found: " + old[:60]; return res
            s = s.replace(old, new)
        open(p, "w").write(s)
        r = subprocess.run(["/venv/bin/python", "-m", "pytest", "-q", "-p", "no:cacheprovider", *DESELECT], cwd=wt, capture_output=True, text=True, env={**os.environ, "PYTHONPATH": wt})
        last = (r.stdout.strip().splitlines() or ["?"])[-1]
        res["tests"] = last; res["test_green"] = (" failed" not in last and " error" not in last and "passed" in last)
        subprocess.run(["rsync", "-a", "--exclude", ".git", "--exclude", ".run", "--exclude", "seeded", HERE + "/", vcopy + "/"], check=True)
        res["checks"] = {}
        for pid in m["props"]:
            r = subprocess.run(["./check", pid, "quick"], cwd=vcopy, env={**os.environ, "VERIF_REPO": wt}, capture_output=True, text=True)
            sigs = []
            try:
                ev = json.load(open(os.path.join(vcopy, "evidence", pid + ".json")))
                sigs = [u if isinstance(u, str) else u.get("signature") for u in ev["coverage"].get("unknown_signatures", [])][:4]
            except Exception:
                pass
            res["checks"][pid] = {"exit": r.returncode, "verdict": {0: "MISSED", 1: "CAUGHT"}.get(r.returncode, "HARNESS-ERROR"), "signatures": sigs}
            if r.returncode not in (0, 1):
                res["checks"][pid]["stderr"] = r.stderr[-600:]
        return res
    finally:
        subprocess.run(["git", "-C", "/repo", "worktree", "remove", "--force", wt], capture_output=True)
        shutil.rmtree(wt, ignore_errors=True); shutil.rmtree(vcopy, ignore_errors=True)


def main():
    args = sys.argv[1:]; jobs = 1
    if "--jobs" in args:
        i = args.index("--jobs"); jobs = int(args[i + 1]); del args[i:i + 2]
    muts = [m for m in json.load(open(os.path.join(HERE, "mutants.json"))) if not m.get("skip") and (not args or m["id"] in args)]
    out = os.path.join(HERE, "mutants_results.json")
    results = {r["id"]: r for r in (json.load(open(out)) if os.path.exists(out) else [])}
    head = subprocess.run(["git", "-C", "/repo", "rev-parse", "--short", "HEAD"], capture_output=True, text=True).stdout.strip()
    with cf.ThreadPoolExecutor(jobs) as ex:
        for r in ex.map(one, muts):
            r["repo_head"] = head
            results[r["id"]] = r
            print(r["id"], r.get("error") or r["tests"], {k: v["verdict"] for k, v in r.get("checks", {}).items()}, flush=True)
            json.dump(sorted(results.values(), key=lambda x: x["id"]), open(out, "w"), indent=1)


main()
